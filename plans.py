"""Per-property plans: which lanes (flavor x scheduling lane x workload) make up the quick and the thorough check.

lane keys: flavor (fast|checked|asan), lane (ser|free), secs (time budget per shard), shards (default: all cores),
           workload (harness sub-command, default: the property id), args (extra harness args), crash_is_violation
"""

COMMON_ASSUMPTIONS = [
    "the harness itself (conductor, recorder, checkers) is correct",
    "hook sites are placed wherever a preemption matters (SER executions are sequentially consistent; FREE adds x86-TSO of this machine)",
    "tokio, futures, crossbeam-channel, parking_lot are executed as black boxes (no hook sites inside)",
    "only paths the workloads drive are observed; see coverage.hook_site_hits for what was reached",
]

def ser(secs, flavor="fast", **kw): return dict(flavor=flavor, lane="ser", secs=secs, **kw)
def free(secs, flavor="fast", **kw): return dict(flavor=flavor, lane="free", secs=secs, **kw)

def plan(rule, quick, thorough, min_q, min_t, extra_assumptions=(), level="exploration"):
    return {"level": level, "rule": rule, "quick": quick, "thorough": thorough, "min_evaluations": {"quick": min_q, "thorough": min_t},
            "assumptions": COMMON_ASSUMPTIONS + list(extra_assumptions)}

def order(secs, lane="free", flavor="fast", **kw): return dict(flavor=flavor, lane=lane, secs=secs, args=["--set", "workload=order"], **kw)

def crash_matters(plan_):
    for tier in ("quick", "thorough"):
        for lane in plan_[tier]: lane["crash_is_violation"] = True
    return plan_

PLANS = {
    "C01": plan("one evaluation = one execution of 1-4 producers (random entry points: send, send_with, send_with_async, reserve+try_send_reserved; rejected sends retried 0-3 times, then given up) "
                "against 1..MAX_STREAMS polling consumers on a random Uni kind / BUFFER_SIZE in {2,4,8,16,64} / MAX_STREAMS in {1,2,4}, payload with or without destructor, under a seeded schedule "
                "(SER) or free-running with injected delays (FREE, 200-3200 events per producer); oracle = conservation over unique ids (exactly-once, nothing unsent, rejected never delivered, "
                "rejected input handed back unchanged and un-invoked); in 1 run of 4 every fourth send is issued from a destructor while the thread unwinds from a panic; distinct = distinct (schedule hash, configuration); non-trivial = every counted run had >= 2 threads interleaved",
                [ser(15), free(10), ser(6, flavor="checked", shards=8)], [ser(200), free(150), ser(80, flavor="checked"), free(60, flavor="checked")], 2000, 20000),
    "C02": plan("one evaluation = one concurrent history (2-4 threads, 2-7 operations each or a fill-until-full/drain-until-empty burst) of send / poll / release-handle operations on a Uni channel kind "
                "or directly on the AtomicMove / FullSyncMove rings (BUFFER_SIZE 2,4,8), stamped at the client boundary and checked by a WGL linearizability checker against a bounded FIFO "
                "('full' may take effect wherever occupancy + operations in progress reach BUFFER_SIZE); plus long free-running runs checked for per-producer order per stream (workload=order); "
                "distinct = distinct observed history (thread, operation, result in call order)",
                [ser(15), free(10), order(6, shards=8)], [ser(200), free(150), order(80), ser(60, flavor="checked")], 2000, 20000,
                ["WGL search budget 2M states per history; exhausting it counts as inconclusive"]),
    "C03": plan("one evaluation = one execution with a fixed set of 1..min(4,MAX_STREAMS) listeners created before the first send, 1-3 producers through random entry points (send, send_with, "
                "send_with_async, send_derived, reserve+try_send_reserved), independent polling threads per listener, on a random Multi kind (6 kinds); Arc kinds are kept within the buffer "
                "(they wait by design beyond it); oracle = per-listener exactly-once + per-producer order + same address across listeners while every handle is still held + reference count = "
                "live handles at quiescence; in 1 run of 3 the listeners are the survivors of an earlier random history of stream creations and drops; distinct = distinct (schedule hash, configuration)",
                [ser(15), free(8), ser(6, flavor="checked", shards=8)], [ser(200), free(120), ser(80, flavor="checked")], 2000, 20000),
    "C04": {
        "level": "exploration",
        "rule": "one evaluation = one execution of a closed system (1-3 producers through a random entry point, 1..MAX_STREAMS parked-when-Pending consumers, "
                "random channel kind/BUFFER_SIZE/MAX_STREAMS/prefill) under a seeded schedule (SER: conductor strategies random/PCT/targeted-pause/round-robin; "
                "FREE: 16 cores + injected delays), run to exact quiescence; distinct = distinct (schedule hash, configuration); non-trivial = at least one consumer "
                "parked and was woken again, or the run ended with an undelivered event; in some of the runs with replaced wakers only the waker of the most recent poll wakes the "
                "consumer, which now and then polls again with a new waker although nobody woke it (a stream that moved to another task)",
        "quick":    [ser(20), free(8, shards=8), ser(8, flavor="checked", shards=8)],
        "thorough": [ser(240), free(120), ser(120, flavor="checked")],
        "min_evaluations": {"quick": 2000, "thorough": 20000},
        "assumptions": COMMON_ASSUMPTIONS + ["liveness restated as safety of a closed finite system: an accepted event undelivered at exact quiescence can never be delivered"],
    },
    "C16": plan("workload `cycles`: one evaluation = one sequential history of 1-60 (thorough: 1-400) fill/drain cycles on one channel (7 rejecting kinds, every entry point, random polls / releases / length "
                "queries mixed in), every answer compared with an exact reference model (accept iff occupancy < BUFFER_SIZE, rejected send leaves pending_items_count and deliveries unchanged, "
                "exactly BUFFER_SIZE accepted on the emptied channel); workload `retry`: one evaluation = 2-4 producers retrying rejected sends against one consumer (SER: conductor stall verdict "
                "for a send that neither succeeds nor returns; FREE: 16 cores), followed by a capacity probe of the emptied channel; SER lanes: a token holder that sleeps in a blocking wait for 2 s (kernel thread state 'S') is a stall; scenario `held` (1 SER run in 5): BUFFER_SIZE-1 events buffered + the last slot reserved by a thread that waits for the others, the others' sends must be rejected promptly (per-operation step bound), then reservation sent, conservation, capacity probe; non-trivial = at least one send was rejected in the run",
                [dict(flavor="fast", lane="free", secs=8, args=["--set", "workload=cycles"]), ser(12), free(8, shards=8), dict(flavor="checked", lane="free", secs=5, shards=4, args=["--set", "workload=cycles"])],
                [dict(flavor="fast", lane="free", secs=120, args=["--set", "workload=cycles"]), ser(150), free(100), dict(flavor="checked", lane="free", secs=60, args=["--set", "workload=cycles"]), ser(60, flavor="checked")],
                2000, 20000, ["excluded by the property: Arc-based Multi kinds and the setter-based sends of the crossbeam Uni channel past their fullness test (they wait by documented design)"]),
    "C20": plan("one evaluation = one serialized execution in which 1-2 send_with_async calls are kept suspended (setter future Pending behind a harness gate) until every other thread finished its script "
                "and every consumer received everything the others got accepted; other threads: 0-2 producers (send, send_with, send_with_async, reserve+try_send_reserved), a length-query thread, polling "
                "consumers, plus operations of the suspended thread itself; 10 channel kinds (all that implement send_with_async); verdict = conductor stall detection (every runnable thread has "
                "spun >= 600 times in a retry loop / performed >= 600 unproductive attempts) + delivery of everything accepted; non-trivial = a setter was really suspended; "
                "driven lane (harness workload C04 with entry=async_gated): the first producer's send_with_async stays suspended until every consumer -- minimal executors that park on Pending -- has drained what was "
                "pending and parked and every other producer has finished; it then completes, and at exact quiescence its event (and every other accepted one) must have been delivered: 'when the suspended send finally "
                "completes, its event is delivered as well' to a stream that nobody else will wake (kinds: those implementing send_with_async minus the two of C20-D9 and the four atomic-ring kinds of C04-D3/D10); the length-query thread also issues flush(unbounded) while a send is suspended (polled by the harness, every Pending answer an unproductive attempt: a flush that keeps waiting ends in the stall verdict)",
                [ser(25), dict(flavor="fast", lane="ser", secs=8, workload="C04", args=["--set", "entry=async_gated"])],
                [ser(240), ser(80, flavor="checked"), dict(flavor="fast", lane="ser", secs=100, workload="C04", args=["--set", "entry=async_gated"]), dict(flavor="checked", lane="ser", secs=40, workload="C04", args=["--set", "entry=async_gated"])], 500, 5000,
                ["'for however long' is restated as: suspended until everybody else has finished (a finite run cannot observe more)", "stall threshold K=600 consecutive unproductive steps per thread"]),
    "C13": plan("one evaluation = one concurrent history of 2-4 threads (alloc_ref / alloc_with, hold, dealloc_id / dealloc_ref, exhaust-until-None and refill bursts) on an OgreArrayPoolAllocator "
                "over either free-list ring, POOL_SIZE in {2,4,8}, free-list sequence counters starting at 0, next to the 32-bit wrap or anywhere; online ownership-table monitor (one atomic per slot, "
                "cleared before dealloc), owner tag integrity, id<->reference bijection; offline WGL linearizability against an id-pool model; exhaust-and-refill probe afterwards; workload `long`: "
                "2-8 free-running threads, 20k-100k operations each under the online monitor only; 1 run in 3 of the others pools 24-byte values (slot size not a power of two); 1 run in 3 pools values with a destructor (destructor on garbage / twice is reported), 1 in 4 issues some operations from a destructor while the thread unwinds from a panic; distinct = distinct observed history",
                [ser(12), free(8), dict(flavor="fast", lane="free", secs=6, shards=8, args=["--set", "workload=long"]), ser(5, flavor="checked", shards=8)],
                [ser(150), free(100), dict(flavor="fast", lane="free", secs=100, args=["--set", "workload=long"]), ser(60, flavor="checked"), dict(flavor="asan", lane="free", secs=60, crash_is_violation=True)], 2000, 20000),
    "C14": plan("one evaluation = one execution of 2-3 threads running scripts over {clone, drop, deref, increment_references+raw_copy, move to another thread, references_count} on handles to 1-2 pooled "
                "values with destructors created through new / new_with / new_with_clones<2|3> / from_allocated / OgreUnique::new (+ into_ogre_arc or plain drop); oracles: drop tracker (destroyed "
                "while held / not destroyed with the last handle / twice), deref identity, references_count() == live handles at the quiescent end, all POOL_SIZE slots allocatable afterwards; "
                "distinct = distinct (schedule, scripts)",
                [ser(12), free(8), ser(5, flavor="checked", shards=8)], [ser(150), free(100), ser(60, flavor="checked"), dict(flavor="asan", lane="free", secs=60, crash_is_violation=True)], 2000, 20000),
    "C07": plan("one evaluation = one execution on a random channel kind (11 kinds), MAX_STREAMS in {1,2,4}, 1..4 streams of which all (cancel_all_streams) or a random non-empty subset "
                "(gracefully_end_stream, unbounded timeout, driven on a paused-time runtime) are targeted by a requester thread at a scheduler-chosen moment; targeted streams are driven by a "
                "minimal executor (park on Pending), the others poll; 0-2 producers send before and after; oracles: no targeted stream parked-and-not-ended at exact quiescence, no Pending from a "
                "poll started after the request returned, request completes (stall verdict), untargeted streams receive every accepted event, all ids reusable afterwards; in 1 run of 5 every stream is dropped while its thread unwinds from a panic (a failing consumer task); distinct = (schedule, config)",
                [ser(15), free(8), ser(6, flavor="checked", shards=8)], [ser(200), free(120), ser(80, flavor="checked")], 2000, 20000),
    "C17": plan("one evaluation = one execution with 2-3 steady listeners (polling threads), 1-2 producers (random entry points) and a churn thread that creates and drops 1-3 (FREE: 1-12) further listeners, "
                "on a random Multi kind (6 kinds, MAX_STREAMS >= 4); oracles: steady listeners exactly-once and in order, churned listeners contiguous runs without repeats, pooled kinds accept BUFFER_SIZE "
                "events again after every queue was drained; every anomaly carries the causal flag 'the affected send overlapped a create/drop-listener operation' (only those match the known finding); "
                "hand-over mode (1 run in 3 where ids allow): two churn threads whose listeners send events themselves within their lifetime and poll until empty, the first thread's drops are held back at a drawn step (targeted pause inside a marked region) and resumed after such sends; anomalies of the steady listeners (lowest ids, fixed list positions) are never attributed to the known finding; distinct = (schedule, config); the evidence counts the sends that really overlapped a churn operation",
                [ser(15), free(8), ser(6, flavor="checked", shards=8)], [ser(200), free(120), ser(80, flavor="checked"), dict(flavor="asan", lane="free", secs=60, crash_is_violation=True)], 2000, 20000),
    "C05": plan("one evaluation = one execution + teardown on a random kind (Uni movable x3, zero-copy x2, Multi arc x3, ogre_arc x2), payload with destructor (4/5) or without: 1-3 producers, 1-3 consumers that "
                "keep up to 4 handles across later sends, clone them, convert unique->shared, hand clones to another thread that drops them, some consumers stop early so that 0..N events are still "
                "buffered when the channel is torn down (after every handle was released); oracles: drop tracker (double drop, drop while a handle is held, destructor on garbage), payload re-read "
                "through every handle at release, instances alive = created - destroyed per event at the quiescent end (0 if delivered and released, 1 if still buffered), capacity probe; the same "
                "workloads in the AddressSanitizer build (a sanitizer report or crash is a violation); in some runs something is left half-done at teardown (a reserved slot neither sent nor cancelled, a send_with_async cancelled while its setter was suspended); payload code (Default, Drop) is a preemption point; distinct = (schedule, config)",
                [ser(12), free(8), dict(flavor="asan", lane="ser", secs=8, shards=8, crash_is_violation=True), dict(flavor="asan", lane="free", secs=6, shards=4, crash_is_violation=True), ser(5, flavor="checked", shards=8)],
                [ser(150), free(100), dict(flavor="asan", lane="ser", secs=100, crash_is_violation=True), dict(flavor="asan", lane="free", secs=80, crash_is_violation=True), ser(60, flavor="checked")], 2000, 20000,
                ["assumes (as the property does) that setters initialise the slot with ptr::write and that handles do not outlive their channel", "a leak (payload never destroyed at teardown) is not reported: the property demands 'at most once' there"]),
    "C08": plan("workload `random`: one evaluation = one sequential script (5-200 steps over reserve / fill+send-reserved (oldest, newest) / cancel (newest, oldest) / plain send / poll / release / length) on one of "
                "the 5 kinds that implement reservations, BUFFER_SIZE in {2..64}, sequence origin 0 / in [2^32-3N, 2^32+N] / anywhere, every answer predicted by the reference model of seq.rs, then all "
                "open reservations resolved legally and the emptied channel must accept exactly BUFFER_SIZE events; workload `exhaustive`: EVERY legal script up to the depth bound (quick 6 / thorough 8 for N=2, "
                "4 / 6 for N=4) x 3 origins (0, 2^32-3, one of the window) x both ways of resolving what is left open; workload `concurrent`: a reservation script on one thread against a polling "
                "consumer (SER/FREE), delivered = sent exactly once with the written content, cancelled never delivered, capacity probe; 1-3 reserving threads where reservations are independent (the 4 pooled kinds); distinct = distinct transcript",
                [dict(flavor="fast", lane="free", secs=6), dict(flavor="fast", lane="free", secs=12, args=["--set", "workload=exhaustive"]), dict(flavor="checked", lane="free", secs=6, shards=8),
                 dict(flavor="checked", lane="free", secs=12, shards=8, args=["--set", "workload=exhaustive"]), dict(flavor="fast", lane="ser", secs=6, args=["--set", "workload=concurrent"]), dict(flavor="fast", lane="free", secs=5, shards=8, args=["--set", "workload=concurrent"])],
                [dict(flavor="fast", lane="free", secs=100), dict(flavor="fast", lane="free", secs=240, args=["--set", "workload=exhaustive"]), dict(flavor="checked", lane="free", secs=80),
                 dict(flavor="checked", lane="free", secs=240, args=["--set", "workload=exhaustive"]), dict(flavor="fast", lane="ser", secs=100, args=["--set", "workload=concurrent"]), dict(flavor="fast", lane="free", secs=80, args=["--set", "workload=concurrent"])],
                5000, 50000, ["payload types without destructor (the property's own restriction)", "the exhaustive sub-space is complete only when the evidence shows no 'exhaustive_enumeration_cut_short' counter"]),
    "C15": plan("one evaluation = one single-threaded script (3-120, thorough 3-300 steps) run twice -- on a fresh object and on one whose sequence counters start at k -- and the two transcripts (every result, "
                "delivered value, reported length, panic) compared; targets: 9 channel kinds built on the rings (send, send_with, send_with_async, reserve/send-reserved/cancel, poll, release, length, teardown "
                "with leftovers), the AtomicMove and FullSyncMove rings, the pool allocator over both free lists, the stream-id FIFO of 10 kinds; k sweeps [2^32-3N, 2^32+2N] run after run, plus random k; "
                "fast and checked (overflow checks) builds; the run on advanced counters has a thread of its own: a script that does not return is compared on the answers given so far and is a violation if the thread is still seen taking steps (retrying) seconds later, inconclusive otherwise; distinct = distinct (transcript, k)",
                [dict(flavor="fast", lane="free", secs=8), dict(flavor="checked", lane="free", secs=8)], [dict(flavor="fast", lane="free", secs=150), dict(flavor="checked", lane="free", secs=150)], 5000, 50000,
                ["'transported 2^32 events before' is restated as a constructor-time sequence origin (feature `verif`): the counters are the only state that remembers how many events flowed"]),
    "C18": plan("one evaluation = one concurrent history (2-4 threads, 2-9 operations each or fill-until-full / drain-until-empty bursts) on the atomic-flag stack, the parking-lot stack (free-running only), "
                "the atomic and the full-sync NonBlockingQueue, capacity 2/4/8, checked by WGL against the bounded LIFO / FIFO model; workload `long`: free-running threads, 50k-450k operations each, "
                "checked for conservation (and per-producer order for the queues); distinct = distinct observed history",
                [ser(12), free(8), dict(flavor="fast", lane="free", secs=8, shards=8, args=["--set", "workload=long"])],
                [ser(150), free(100), dict(flavor="fast", lane="free", secs=150, args=["--set", "workload=long"]), ser(50, flavor="checked"), dict(flavor="asan", lane="free", secs=50, crash_is_violation=True)], 2000, 20000),
    "C19": plan("one evaluation = one execution of 1-3 writer threads recording measurements into StreamExecutor::ok_events_avg_future_duration (single writer: 1,3,5,.. so mean == count; several writers: 2t-1 for a "
                "global ticket t, or one constant incl. the -1.0 sentinel) while 1-2 readers probe; oracles: count never decreases, every probed (count, average) pair is possible, final count == number "
                "of inc calls, final average == arithmetic mean (relative 2e-3); non-trivial = the compare-exchange retry path was really taken in the run",
                [ser(10), free(8), ser(5, flavor="checked", shards=8)], [ser(100), free(100), ser(50, flavor="checked")], 2000, 20000),
    "C09": plan("one evaluation = one execution on the mmap log channel (MAX_STREAMS 2/4/8): 1-4 publishers (send / send_with), 1-4 listener threads that subscribe after a scheduler-chosen delay (new only / old+new "
                "split / old+new joined) and consume at their own pace; afterwards a fresh joined subscription is drained = the log's total order; oracles: total order contains every accepted event once and "
                "respects each publisher's order, joined listeners == it, split: old ++ new == it and the old stream ended, new-only: gap-free suffix, same address per event for every listener, references "
                "re-read unchanged at the end; the evidence counts splits that really happened while publishing was under way; in half of the runs earlier listeners (new / joined / split) were subscribed, (partly) consumed and dropped before the run, so ids and subscriber slots are recycled; a stream for new events must never end by itself and must yield whatever was sent after its subscription returned; distinct = (schedule, config)",
                [ser(15), free(8), dict(flavor="asan", lane="free", secs=6, shards=4, crash_is_violation=True)], [ser(200), free(120), ser(60, flavor="checked"), dict(flavor="asan", lane="free", secs=80, crash_is_violation=True)], 1000, 10000,
                ["the old-only subscription is unimplemented upstream and excluded, as the property says", "Miri and valgrind cannot run this channel (file-backed 2 TB sparse mmap); ASan can"]),
    "C10": plan("workload `random`: one evaluation = one sequential history (5-400, thorough 5-2000 steps) over {create listener, send, receive one / all, drop listener (with or without unconsumed events), cancel all} "
                "on a random non-log Multi kind (Uni kinds: create/drop bookkeeping only), MAX_STREAMS 1/2/4, the stream-id FIFO starting at 0, next to the 32-bit wrap or anywhere, compared step by step with "
                "a reference model (live listeners; per listener the events accepted during its lifetime; running_streams_count == live; creation never panics below MAX_STREAMS); workload `exhaustive`: EVERY "
                "legal history up to depth 7 (thorough 9; Uni kinds 6) for MAX_STREAMS 1 and 2, BUFFER_SIZE 2 and 4; every third drop happens while the thread unwinds from a panic; non-trivial = at least one stream id was recycled in the history",
                [dict(flavor="fast", lane="free", secs=8), dict(flavor="fast", lane="free", secs=15, args=["--set", "workload=exhaustive"]), dict(flavor="checked", lane="free", secs=6, shards=8)],
                [dict(flavor="fast", lane="free", secs=120), dict(flavor="fast", lane="free", secs=300, args=["--set", "workload=exhaustive"]), dict(flavor="checked", lane="free", secs=80)], 5000, 50000),
    "C06": plan("one evaluation = one pipeline on a real tokio runtime (paused-time current-thread or multi-thread with 2-8 workers): a Uni (4 executor kinds x 5 channel kinds, MAX_STREAMS 1-2) or a Multi (futures-fallible / "
                "plain executor x 6 channel kinds, 1-3 listeners, optionally one listener dropped unconsumed beforehand), concurrency limit 1-4, 0-48 events whose per-event behaviour is drawn from {sync, ready future, "
                "future with 1-3 yields, future sleeping, failing}; after the sends close(Duration::ZERO) is awaited and the closing task itself snapshots: every accepted event finished by every entitled stream, "
                "running_streams_count == 0, channel not open; workload `storm`: batches of 200 small Unis (0-3 events, half of them with cancel_all_streams() right before the close, a third with a second concurrent close) "
                "opened and closed back to back on one multi-thread runtime, same snapshot oracle -- the closing task's wake-ups race streams that are ending and being dropped on other workers; channel level (harness workload C07 with request=end_all, conductor + "
                "free-running lanes): gracefully_end_all_streams(unbounded) issued by a requester thread against 1-4 streams driven by minimal executors (park on Pending) on every channel kind, with sends before and during the "
                "request -- when it returns, every event accepted before the call has been yielded (Uni: by some stream, Multi: by every listener), every stream has answered end-of-stream, none is running, the channel is not open; in 1 tokio run of 4 an earlier close precedes the unbounded one: with a deadline of a few ms (may expire) or abandoned by its caller after 1 ms; distinct = distinct (behaviour sequence, config); non-trivial = at least one event",
                [dict(flavor="fast", lane="free", secs=20), dict(flavor="asan", lane="free", secs=12, shards=8), dict(flavor="fast", lane="free", secs=8, args=["--set", "workload=storm"]), dict(flavor="asan", lane="free", secs=8, shards=8, args=["--set", "workload=storm"]),
                 dict(flavor="fast", lane="ser", secs=8, workload="C07", args=["--set", "request=end_all"]), dict(flavor="fast", lane="free", secs=6, shards=8, workload="C07", args=["--set", "request=end_all"])],
                [dict(flavor="fast", lane="free", secs=240), dict(flavor="checked", lane="free", secs=100), dict(flavor="asan", lane="free", secs=120), dict(flavor="fast", lane="free", secs=100, args=["--set", "workload=storm"]), dict(flavor="asan", lane="free", secs=100, args=["--set", "workload=storm"]),
                 dict(flavor="fast", lane="ser", secs=120, workload="C07", args=["--set", "request=end_all"]), dict(flavor="fast", lane="free", secs=80, workload="C07", args=["--set", "request=end_all"]), dict(flavor="checked", lane="ser", secs=40, workload="C07", args=["--set", "request=end_all"])], 1000, 10000,
                ["tokio, futures: black boxes", "a run that does not finish within the 60 s wall-clock watchdog is inconclusive, never a verdict",
                 "a process crash or AddressSanitizer report while pipelines are being closed is a violation (close() neither returned nor left the promised state)"]),
    "C11": plan("one evaluation = one item script (0-32, thorough 0-64 items over {ok, error, slow, slow-then-error}) pushed through one of the five StreamExecutor::spawn_* functions, with / without a futures timeout, "
                "6 instrument settings, concurrency limit 1-8, on a paused-time current-thread runtime (slow = 10x the timeout in virtual time) or a multi-thread runtime (slow = never completes; ok/error ready at first "
                "poll); oracles at the close callback: ok + timed_out + failed == items and each counter == the ledger's count (metrics on), error callback exactly once per failed item, every item processed, slow items "
                "dropped-not-completed under a timeout, in-flight gauge never above the limit; asynchronous error callbacks that take longer than the futures timeout (each must have run to its end at the close callback); workload `wrappers` also drives the old-events / new-events executor pair of a log-channel Multi under the gauge; non-trivial = the script has at least one non-ok item",
                [dict(flavor="fast", lane="free", secs=15), dict(flavor="fast", lane="free", secs=8, args=["--set", "workload=wrappers"])],
                [dict(flavor="fast", lane="free", secs=200), dict(flavor="checked", lane="free", secs=80), dict(flavor="fast", lane="free", secs=100, args=["--set", "workload=wrappers"])], 1000, 10000,
                ["on the multi-thread runtime no category depends on wall-clock time: ok / error items are ready at their first poll (tokio::time::timeout polls the inner future first), except in the "
                 "`aged` runs (the first item arrives after the executor has outlived its timeout; items suspend for a few yields), where an item found cancelled is a violation only if it had been in "
                 "flight for less than the timeout by its own measurement -- an item that really was in flight that long is accounted as a legitimate time-out",
                 "workload `wrappers`: the limit seen through Uni / Multi (pipelines of C06): at most limit x executors item futures in progress at one instant"]),
    "C12": plan("workload `direct`: the item scripts of C11 through the five StreamExecutor::spawn_* functions -- close callback invoked exactly once, with no item unfinished, status StreamEnded, finish >= start; "
                "workload (default, drawn per run) `uni`: a Uni with MAX_STREAMS 1/2/4 futures executors (3 channel kinds), user callback exactly once with finished_executors_count == MAX_STREAMS, no stream running, "
                "no item in progress; `multi`: 2-3 pipelines on 4 Multi kinds, pipeline 0 removed by flush_and_cancel_executor at a random point, the rest closed: every callback exactly once, after the last item "
                "of its stream (ledger stamps), ended state legal (ProgrammaticallyEnded only if scheduled), the other pipelines got every event; `sequential`: log channel, old events, spawn_futures_oldies_executor "
                "with sequential_transition on/off, new events: with the flag on no new event starts before the last old one finished; paused-time and multi-thread runtimes; `multi`: 1 run in 4 ends with a close whose deadline expires while executors are busy (they must still end in an 'ended' state, ProgrammaticallyEnded only if scheduled); non-trivial = at least one event",
                [dict(flavor="fast", lane="free", secs=12, args=["--set", "workload=direct"]), dict(flavor="fast", lane="free", secs=20)],
                [dict(flavor="fast", lane="free", secs=120, args=["--set", "workload=direct"]), dict(flavor="fast", lane="free", secs=240), dict(flavor="checked", lane="free", secs=80)], 1000, 10000,
                ["MAX_STREAMS = 3 is not constructible (the stream-id ring needs a power of two)", "a run that does not finish within the 60 s wall-clock watchdog is inconclusive"]),
}

LEVEL_NOTE = ("trusted base: the harness (conductor/chaos scheduler, recorder, checkers), the placement of the hook sites, x86-64/TSO for the free-running lane, "
              "tokio/futures/crossbeam/parking_lot as black boxes; nothing is claimed about executions that were not produced")

def meta(engine, technique, text, ref):
    return {"engine": engine, "technique": technique, "level_text": text + " Held on the executions observed, nothing more.", "design_ref": ref, "level_note": LEVEL_NOTE}

META = {
    "C01": meta("conductor+chaos", "runtime monitoring: seeded controlled scheduling + multi-core stress with injected delays; conservation (exactly-once) oracle over unique event ids recorded at the client boundary",
                "Randomised exploration of real executions of the five Uni channel kinds with concurrent producers and polling consumers; every accepted id must be yielded exactly once, nothing else may be yielded.",
                "DESIGN.md section 2, C01"),
    "C02": meta("conductor+chaos", "runtime monitoring: recorded call/return histories checked offline for linearizability (WGL) against a sequential bounded-FIFO model; per-producer order on long runs",
                "Randomised exploration: many short concurrent histories on the real channels and rings, each decided by an exact linearizability check against the sequential model the property names.",
                "DESIGN.md section 2, C02"),
    "C03": meta("conductor+chaos", "runtime monitoring: per-listener exactly-once / order oracle over unique ids, allocation identity and reference counts compared while all handles are held",
                "Randomised exploration of real executions of the six Multi channel kinds with a fixed listener set.",
                "DESIGN.md section 2, C03"),
    "C04": {
        "engine": "conductor+chaos",
        "technique": "runtime monitoring: seeded controlled scheduling + stress with injected delays, exact-quiescence oracle over recorded send/poll/wake histories",
        "level_text": "Randomised exploration of real executions: closed producer/consumer systems are run to exact quiescence under a serialized seeded scheduler (and free-running with injected delays); "
                      "an accepted event undelivered at quiescence is a lost wake-up. Each stuck state is explained causally from recorded wake targets / sampled lengths so that only the listed "
                      "known findings are tolerated. Held on the executions observed, nothing more.",
        "design_ref": "DESIGN.md section 2, C04",
        "level_note": LEVEL_NOTE,
    },
    "C16": meta("conductor+chaos", "runtime monitoring: sequential reference-model monitor over fill/drain histories (exact prediction of every answer) + controlled-scheduling stall verdict and capacity probe under contention",
                "Randomised exploration: exact differential against a sequential model for single-threaded histories of any length; concurrent retry runs decided by the scheduler's stall verdict, conservation and a capacity probe.",
                "DESIGN.md section 2, C16"),
    "C20": meta("conductor", "runtime monitoring: serialized scheduler with a harness-controlled suspension of the async setter; stall (no-progress) verdict instead of time-outs; delivery oracle",
                "Randomised exploration of serialized executions with one or two async sends held suspended; blocking of any other operation shows up as an exact stall state, not a time-out.",
                "DESIGN.md section 2, C20"),
    "C13": meta("conductor+chaos+asan", "runtime monitoring: online ownership-table monitor (shadow state updated before the real release) + offline WGL linearizability of alloc/dealloc histories against an id-pool model; AddressSanitizer lane in thorough",
                "Randomised exploration of concurrent alloc/dealloc histories on the real allocator with an exclusive-ownership monitor and an exact linearizability check of short histories.",
                "DESIGN.md section 2, C13"),
    "C14": meta("conductor+chaos+asan", "runtime monitoring: instrumented payload (drop tracker) + harness shadow of live handles, checked at quiescent points; controlled scheduling around the clone/drop sites; AddressSanitizer lane in thorough",
                "Randomised exploration of handle scripts on 2-3 threads with the decisive placements (two last handles dropped at once, clone racing a final drop) forced by the scheduler.",
                "DESIGN.md section 2, C14"),
    "C07": meta("conductor+chaos", "runtime monitoring: controlled scheduling of the cancel/end request against the stream's poll steps; exact-quiescence oracle (parked and not ended), stall verdict, delivery oracle for untargeted streams",
                "Randomised exploration of the placements of a cancel/end request relative to a stream's poll steps, with parked consumers decided at exact quiescence.",
                "DESIGN.md section 2, C07"),
    "C17": meta("conductor+chaos+asan", "runtime monitoring: controlled scheduling of the live-listener list rewrite against the sender's fan-out loop; per-listener exactly-once/order oracle, capacity probe, causal attribution of each anomaly to an overlapping churn operation",
                "Randomised exploration of listener creation/removal racing the fan-out loop, with every anomaly attributed (or not) to an overlapping churn operation.",
                "DESIGN.md section 2, C17"),
    "C05": meta("conductor+chaos+asan", "runtime monitoring: instrumented payload type (per-event drop counter, canary, live-handle table updated before the real release) + AddressSanitizer on the same histories, teardown with buffered events included",
                "Randomised exploration of send/receive/clone/drop/teardown histories with an instrumented payload, run both natively and under AddressSanitizer.",
                "DESIGN.md section 2, C05"),
    "C08": meta("seqmodel+conductor+chaos", "runtime monitoring: reference-model monitor over sequential reservation histories (exhaustive for small buffers, random for large, replayed from sequence origins around the 32-bit wrap) + concurrent delivery oracle",
                "Exhaustive enumeration of short legal reservation scripts on BUFFER_SIZE 2/4 plus randomised long scripts, each compared step by step with an exact sequential model.",
                "DESIGN.md section 2, C08"),
    "C15": meta("seqmodel", "runtime monitoring: differential replay of one script from two sequence origins (0 vs k around the 32-bit wrap) on the real objects, in builds with and without overflow checks",
                "Randomised differential testing of the real code against itself: fresh object vs object whose counters have advanced by k.",
                "DESIGN.md section 2, C15"),
    "C18": meta("conductor+chaos", "runtime monitoring: recorded push/pop (enqueue/dequeue) histories checked offline by WGL against bounded LIFO / FIFO models; conservation and order on long multi-core runs",
                "Randomised exploration: many short concurrent histories on the real containers, each decided by an exact linearizability check; long free-running runs for conservation.",
                "DESIGN.md section 2, C18"),
    "C19": meta("conductor+chaos", "runtime monitoring: online checker of every probed (count, average) pair against what the recorded measurements allow, final conservation of the count; scheduler forces the CAS retry path",
                "Randomised exploration with measurement sequences chosen so that a lost update or a mixed pair is arithmetically visible.",
                "DESIGN.md section 2, C19"),
    "C09": meta("conductor+chaos+asan", "runtime monitoring: offline checker over the sequences yielded by every listener against the log's total order (a post-run full replay), with subscriptions scheduled inside the publishers' reserve/fill/publish steps",
                "Randomised exploration of late subscriptions racing concurrent publishers on the real mmap log channel.",
                "DESIGN.md section 2, C09"),
    "C10": meta("seqmodel", "runtime monitoring: reference-model monitor over listener life-cycle histories (exhaustive for small MAX_STREAMS, random long histories so that every stream id is recycled many times)",
                "Exhaustive enumeration of short listener life-cycle histories plus randomised long ones, each compared step by step with an exact sequential model.",
                "DESIGN.md section 2, C10"),
    "C06": meta("tokio+conductor+chaos+asan", "runtime monitoring: per-item started/finished ledger written by the pipeline itself, snapshot taken by the closing task right after close() returns (completion is monotone), on deterministic virtual-time and on multi-thread tokio runtimes; the same pipelines in an AddressSanitizer build (real tokio wakers racing the close path); channel-level gracefully_end_all_streams under the serialized scheduler with an exact delivered-before-return oracle over stamped yields",
                "Randomised exploration of workloads x executor kinds x concurrency limits x runtimes with a monotone-completion oracle.",
                "DESIGN.md section 2, C06"),
    "C11": meta("tokio", "runtime monitoring: per-item outcome ledger + in-flight gauge inside the item futures, compared with the executor's counters and error-callback invocations at the close callback",
                "Randomised exploration of item scripts over every executor variant / instrument setting / limit / runtime.",
                "DESIGN.md section 2, C11"),
    "C12": meta("tokio", "runtime monitoring: callback ledger (invocation count, logical stamp relative to each item's finished stamp, executor status / start / finish deltas read inside the callback) on real tokio runtimes",
                "Randomised exploration of executor life cycles (direct, Uni latch, Multi per-pipeline cancellation, log-channel old->new transition) with items completing out of order.",
                "DESIGN.md section 2, C12"),
}

# a process crash (SIGSEGV / SIGABRT / SIGBUS / SIGILL, sanitizer or interpreter report) in any lane of any property is a violation (see `check`)
for _p in PLANS:
    crash_matters(PLANS[_p])

# ---- Miri lanes (DESIGN 6.5): the same workload functions, a few runs per shard process (the interpreter costs 2-50 s per run), on the kinds Miri can
# interpret (not the mmap log channel). A Miri error (use-after-free, double free, dangling reference, uninitialised read, invalid value, out-of-bounds
# pointer arithmetic) or a crash of the interpreted harness is a violation of the property whose workload produced it.
def miri(secs, lane="ser", **kw): return dict(flavor="miri", lane=lane, secs=secs, shards=16, crash_is_violation=True, **kw)
MIRI_LANES = {   # property: (quick lane | None, thorough lane)
    "C13": (miri(25), miri(300)),
    "C14": (miri(25), miri(300)),
    "C08": (miri(25, lane="free"), miri(300, lane="free")),
    "C19": (miri(15), miri(120)),
    "C05": (None, miri(420)),
    "C03": (None, miri(300)),
    "C01": (None, miri(300)),
    "C02": (None, miri(400)),
    "C10": (None, miri(150, lane="free")),
    "C16": (None, miri(300)),
    "C15": (None, miri(150, lane="free")),
}
for _p, (_q, _t) in MIRI_LANES.items():
    if _q: PLANS[_p]["quick"].append(_q)
    PLANS[_p]["thorough"].append(_t)
    PLANS[_p]["assumptions"].append("Miri lane: aarch64 target, data-race detector off, Tree Borrows (DESIGN 0.1, 6.5); the interpreter sees only the few hundred small runs it is given")
    META[_p]["engine"] += "+miri"
    META[_p]["technique"] += "; the same workload under the Miri interpreter (undefined-behaviour monitor: use-after-free, double free, dangling references, uninitialised reads)" + ("" if _q else " in the thorough tier")
