"""Per-property plans: which lanes (flavor x scheduling lane x workload) make up the quick and the thorough check.

lane keys: flavor (fast|checked|asan), lane (ser|free), secs (time budget per shard), shards (default: all cores),
           workload (harness sub-command, default: the property id), args (extra harness args), crash_is_violation
"""

COMMON_ASSUMPTIONS = [
    "the harness itself (conductor, recorder, checkers) is correct",
    "hook sites are placed wherever a preemption matters (SER executions are sequentially consistent; FREE adds x86-TSO of this machine)",
    "tokio, futures, crossbeam-channel, parking_lot are executed as black boxes (no hook sites inside)",
    "only paths the workloads drive are observed; see coverage.hook_site_hits for what was reached",
]

def ser(secs, flavor="fast", **kw): return dict(flavor=flavor, lane="ser", secs=secs, **kw)
def free(secs, flavor="fast", **kw): return dict(flavor=flavor, lane="free", secs=secs, **kw)

def plan(rule, quick, thorough, min_q, min_t, extra_assumptions=(), level="exploration"):
    return {"level": level, "rule": rule, "quick": quick, "thorough": thorough, "min_evaluations": {"quick": min_q, "thorough": min_t},
            "assumptions": COMMON_ASSUMPTIONS + list(extra_assumptions)}

def order(secs, lane="free", flavor="fast", **kw): return dict(flavor=flavor, lane=lane, secs=secs, args=["--set", "workload=order"], **kw)

PLANS = {
    "C01": plan("one evaluation = one execution of 1-4 producers (random entry points: send, send_with, send_with_async, reserve+try_send_reserved; rejected sends retried 0-3 times, then given up) "
                "against 1..MAX_STREAMS polling consumers on a random Uni kind / BUFFER_SIZE in {2,4,8,16,64} / MAX_STREAMS in {1,2,4}, payload with or without destructor, under a seeded schedule "
                "(SER) or free-running with injected delays (FREE, 200-3200 events per producer); oracle = conservation over unique ids (exactly-once, nothing unsent, rejected never delivered, "
                "rejected input handed back unchanged and un-invoked); distinct = distinct (schedule hash, configuration); non-trivial = every counted run had >= 2 threads interleaved",
                [ser(15), free(10), ser(6, flavor="checked", shards=8)], [ser(200), free(150), ser(80, flavor="checked"), free(60, flavor="checked")], 2000, 20000),
    "C02": plan("one evaluation = one concurrent history (2-4 threads, 2-7 operations each or a fill-until-full/drain-until-empty burst) of send / poll / release-handle operations on a Uni channel kind "
                "or directly on the AtomicMove / FullSyncMove rings (BUFFER_SIZE 2,4,8), stamped at the client boundary and checked by a WGL linearizability checker against a bounded FIFO "
                "('full' may take effect wherever occupancy + operations in progress reach BUFFER_SIZE); plus long free-running runs checked for per-producer order per stream (workload=order); "
                "distinct = distinct observed history (thread, operation, result in call order)",
                [ser(15), free(10), order(6, shards=8)], [ser(200), free(150), order(80), ser(60, flavor="checked")], 2000, 20000,
                ["WGL search budget 2M states per history; exhausting it counts as inconclusive"]),
    "C03": plan("one evaluation = one execution with a fixed set of 1..min(4,MAX_STREAMS) listeners created before the first send, 1-3 producers through random entry points (send, send_with, "
                "send_with_async, send_derived, reserve+try_send_reserved), independent polling threads per listener, on a random Multi kind (6 kinds); Arc kinds are kept within the buffer "
                "(they wait by design beyond it); oracle = per-listener exactly-once + per-producer order + same address across listeners while every handle is still held + reference count = "
                "live handles at quiescence; distinct = distinct (schedule hash, configuration)",
                [ser(15), free(8), ser(6, flavor="checked", shards=8)], [ser(200), free(120), ser(80, flavor="checked")], 2000, 20000),
    "C04": {
        "level": "exploration",
        "rule": "one evaluation = one execution of a closed system (1-3 producers through a random entry point, 1..MAX_STREAMS parked-when-Pending consumers, "
                "random channel kind/BUFFER_SIZE/MAX_STREAMS/prefill) under a seeded schedule (SER: conductor strategies random/PCT/targeted-pause/round-robin; "
                "FREE: 16 cores + injected delays), run to exact quiescence; distinct = distinct (schedule hash, configuration); non-trivial = at least one consumer "
                "parked and was woken again, or the run ended with an undelivered event",
        "quick":    [ser(20), free(8, shards=8), ser(8, flavor="checked", shards=8)],
        "thorough": [ser(240), free(120), ser(120, flavor="checked")],
        "min_evaluations": {"quick": 2000, "thorough": 20000},
        "assumptions": COMMON_ASSUMPTIONS + ["liveness restated as safety of a closed finite system: an accepted event undelivered at exact quiescence can never be delivered"],
    },
}

LEVEL_NOTE = ("trusted base: the harness (conductor/chaos scheduler, recorder, checkers), the placement of the hook sites, x86-64/TSO for the free-running lane, "
              "tokio/futures/crossbeam/parking_lot as black boxes; nothing is claimed about executions that were not produced")

def meta(engine, technique, text, ref):
    return {"engine": engine, "technique": technique, "level_text": text + " Held on the executions observed, nothing more.", "design_ref": ref, "level_note": LEVEL_NOTE}

META = {
    "C01": meta("conductor+chaos", "runtime monitoring: seeded controlled scheduling + multi-core stress with injected delays; conservation (exactly-once) oracle over unique event ids recorded at the client boundary",
                "Randomised exploration of real executions of the five Uni channel kinds with concurrent producers and polling consumers; every accepted id must be yielded exactly once, nothing else may be yielded.",
                "DESIGN.md section 2, C01"),
    "C02": meta("conductor+chaos", "runtime monitoring: recorded call/return histories checked offline for linearizability (WGL) against a sequential bounded-FIFO model; per-producer order on long runs",
                "Randomised exploration: many short concurrent histories on the real channels and rings, each decided by an exact linearizability check against the sequential model the property names.",
                "DESIGN.md section 2, C02"),
    "C03": meta("conductor+chaos", "runtime monitoring: per-listener exactly-once / order oracle over unique ids, allocation identity and reference counts compared while all handles are held",
                "Randomised exploration of real executions of the six Multi channel kinds with a fixed listener set.",
                "DESIGN.md section 2, C03"),
    "C04": {
        "engine": "conductor+chaos",
        "technique": "runtime monitoring: seeded controlled scheduling + stress with injected delays, exact-quiescence oracle over recorded send/poll/wake histories",
        "level_text": "Randomised exploration of real executions: closed producer/consumer systems are run to exact quiescence under a serialized seeded scheduler (and free-running with injected delays); "
                      "an accepted event undelivered at quiescence is a lost wake-up. Each stuck state is explained causally from recorded wake targets / sampled lengths so that only the listed "
                      "known findings are tolerated. Held on the executions observed, nothing more.",
        "design_ref": "DESIGN.md section 2, C04",
        "level_note": LEVEL_NOTE,
    },
}
