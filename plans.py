"""Per-property plans: which lanes (flavor x scheduling lane x workload) make up the quick and the thorough check.

lane keys: flavor (fast|checked|asan), lane (ser|free), secs (time budget per shard), shards (default: all cores),
           workload (harness sub-command, default: the property id), args (extra harness args), crash_is_violation
"""

COMMON_ASSUMPTIONS = [
    "the harness itself (conductor, recorder, checkers) is correct",
    "hook sites are placed wherever a preemption matters (SER executions are sequentially consistent; FREE adds x86-TSO of this machine)",
    "tokio, futures, crossbeam-channel, parking_lot are executed as black boxes (no hook sites inside)",
    "only paths the workloads drive are observed; see coverage.hook_site_hits for what was reached",
]

def ser(secs, flavor="fast", **kw): return dict(flavor=flavor, lane="ser", secs=secs, **kw)
def free(secs, flavor="fast", **kw): return dict(flavor=flavor, lane="free", secs=secs, **kw)

PLANS = {
    "C04": {
        "level": "exploration",
        "rule": "one evaluation = one execution of a closed system (1-3 producers through a random entry point, 1..MAX_STREAMS parked-when-Pending consumers, "
                "random channel kind/BUFFER_SIZE/MAX_STREAMS/prefill) under a seeded schedule (SER: conductor strategies random/PCT/targeted-pause/round-robin; "
                "FREE: 16 cores + injected delays), run to exact quiescence; distinct = distinct (schedule hash, configuration); non-trivial = at least one consumer "
                "parked and was woken again, or the run ended with an undelivered event",
        "quick":    [ser(20), free(8, shards=8), ser(8, flavor="checked", shards=8)],
        "thorough": [ser(240), free(120), ser(120, flavor="checked")],
        "min_evaluations": {"quick": 2000, "thorough": 20000},
        "assumptions": COMMON_ASSUMPTIONS + ["liveness restated as safety of a closed finite system: an accepted event undelivered at exact quiescence can never be delivered"],
    },
}

LEVEL_NOTE = ("trusted base: the harness (conductor/chaos scheduler, recorder, checkers), the placement of the hook sites, x86-64/TSO for the free-running lane, "
              "tokio/futures/crossbeam/parking_lot as black boxes; nothing is claimed about executions that were not produced")

META = {
    "C04": {
        "engine": "conductor+chaos",
        "technique": "runtime monitoring: seeded controlled scheduling + stress with injected delays, exact-quiescence oracle over recorded send/poll/wake histories",
        "level_text": "Randomised exploration of real executions: closed producer/consumer systems are run to exact quiescence under a serialized seeded scheduler (and free-running with injected delays); "
                      "an accepted event undelivered at quiescence is a lost wake-up. Each stuck state is explained causally from recorded wake targets / sampled lengths so that only the listed "
                      "known findings are tolerated. Held on the executions observed, nothing more.",
        "design_ref": "DESIGN.md section 2, C04",
        "level_note": LEVEL_NOTE,
    },
}
