//! Shard arguments, result accumulation and the shard output file

use crate::json::J;
use crate::sched::{mix, Lane, Outcome, Report, Rng, Strategy};
use std::collections::HashSet;
use std::time::{Duration, Instant};

#[derive(Clone, Debug)]
pub struct Args {
    pub prop:    String,
    pub lane:    Lane,
    pub tier:    String,
    pub seed:    u64,
    pub shard:   u64,
    pub nshards: u64,
    pub secs:    f64,
    pub runs:    u64,
    pub out:     String,
    pub only:    Option<String>,    // restrict to one workload / kind (used by replays and calibration)
    pub replay:  Option<J>,
    pub flavor:  String,
    pub extra:   Vec<(String, String)>,
}
impl Args {
    pub fn thorough(&self) -> bool { self.tier == "thorough" }
    pub fn get(&self, k: &str) -> Option<&str> { self.extra.iter().find(|(kk, _)| kk == k).map(|(_, v)| v.as_str()) }
    pub fn run_seed(&self, run: u64) -> u64 {
        mix(mix(self.seed, self.shard.wrapping_mul(0x1000_0000_01B3) ^ if self.lane == Lane::Ser { 1 } else { 2 }), run) & 0x7FFF_FFFF_FFFF_FFFF
    }
}

pub struct Acc {
    pub prop:        String,
    pub started:     Instant,
    pub budget:      Duration,
    pub max_runs:    u64,
    pub evaluations: u64,
    pub distinct:    HashSet<u64>,
    pub counters:    J,
    pub violations:  Vec<J>,
    pub inconclusive: u64,
    pub samples:     Vec<J>,
    pub notes:       Vec<String>,
    pub sig_counts:  std::collections::HashMap<String, u32>,
}
impl Acc {
    pub fn new(args: &Args) -> Acc {
        Acc {
            prop: args.prop.clone(), started: Instant::now(), budget: Duration::from_secs_f64(args.secs), max_runs: args.runs,
            evaluations: 0, distinct: HashSet::new(), counters: J::obj(), violations: Vec::new(), inconclusive: 0, samples: Vec::new(), notes: Vec::new(), sig_counts: Default::default(),
        }
    }
    pub fn more(&self) -> bool { self.evaluations < self.max_runs && self.started.elapsed() < self.budget && self.violations.len() < 300 && !self.stopped_early() }
    /// too many threads of aborted runs were leaked in this process: stop, the driver continues in a fresh process
    pub fn stopped_early(&self) -> bool { crate::sched::LEAKED_THREADS.load(std::sync::atomic::Ordering::SeqCst) > 3000 }
    pub fn count(&mut self, k: &str, n: u64) { self.counters.add(k, n as i64) }
    pub fn nontrivial(&mut self, h: u64) { if self.distinct.len() < 400_000 { self.distinct.insert(h); } }
    pub fn sample(&mut self, max: usize, f: impl FnOnce() -> J) { if self.samples.len() < max { let j = f(); self.samples.push(j) } }
    /// files a violation record; identical signatures (string / boolean fields) are stored at most 12 times per shard, the rest is only counted
    pub fn violation(&mut self, v: J) {
        let mut key = String::new();
        if let Some(J::Arr(sigs)) = v.get("sigs") {
            for s in sigs { if let J::Obj(o) = s { for (k, val) in o { match val { J::Str(x) => { key.push_str(k); key.push('='); key.push_str(x); key.push(';') } J::Bool(b) => { key.push_str(k); key.push_str(if *b { "=1;" } else { "=0;" }) } _ => {} } } } key.push('|') }
        }
        let n = self.sig_counts.entry(key).or_insert(0);
        *n += 1;
        if *n <= 12 { self.violations.push(v) } else { self.counters.add("violation_records_not_stored(duplicates_of_a_stored_signature)", 1) }
    }
    /// bookkeeping common to every run that went through `sched::run`
    pub fn account(&mut self, rep: &Report) {
        self.evaluations += 1;
        self.count("steps", rep.steps);
        self.count("context_switches", rep.switches);
        if rep.inconclusive() { self.inconclusive += 1; match rep.outcome { Outcome::StepCap => self.count("inconclusive_step_cap", 1), _ => self.count("inconclusive_watchdog", 1) } }
        if rep.pause_hit { self.count("targeted_pauses_taken", 1) }
    }
    pub fn to_json(&self, args: &Args) -> J {
        let mut distinct: Vec<J> = self.distinct.iter().take(400_000).map(|h| J::s(format!("{:x}", h))).collect();
        distinct.truncate(400_000);
        J::obj()
            .with("property", J::s(&self.prop))
            .with("lane", J::s(if args.lane == Lane::Ser { "ser" } else { "free" }))
            .with("flavor", J::s(&args.flavor))
            .with("shard", J::i(args.shard as i64))
            .with("seed", J::i((args.seed & 0x7FFF_FFFF_FFFF_FFFF) as i64))
            .with("evaluations", J::i(self.evaluations as i64))
            .with("distinct", J::Arr(distinct))
            .with("inconclusive", J::i(self.inconclusive as i64))
            .with("counters", self.counters.clone())
            .with("violations", J::Arr(self.violations.clone()))
            .with("samples", J::Arr(self.samples.clone()))
            .with("notes", J::Arr(self.notes.iter().map(J::s).collect()))
            .with("site_hits", crate::sched::site_hits_json())
            .with("stopped_early", J::Bool(self.stopped_early()))
            .with("wall_s", J::Num(self.started.elapsed().as_secs_f64()))
    }
}

/// draws a SER strategy for a run: mostly random walks and targeted pauses, some PCT and round-robin
pub fn draw_strategy(rng: &mut Rng, nthreads: usize, pause_sites: &[u32], est_steps: u32) -> Strategy {
    match rng.below(100) {
        0..=29 => Strategy::Random { p_pct: *rng.pick(&[5, 20, 50]) },
        30..=69 if !pause_sites.is_empty() => Strategy::PauseAt {
            p_pct: *rng.pick(&[5, 20, 50]),
            tid: rng.below(nthreads as u64) as usize,
            site: *rng.pick(pause_sites),
            nth: 1 + rng.below(4) as u32,
            budget: *rng.pick(&[50, 400, 5000]),
        },
        70..=89 => Strategy::Pct { depth: 1 + rng.below(3) as u32, est_steps },
        _ => Strategy::RoundRobin { q: 1 + rng.below(6) as u32 },
    }
}

pub fn hex(h: u64) -> String { format!("{:016x}", h) }

/// the standard outer loop of a property: replay one recorded run, or draw runs until the budget is used up
pub fn run_loop(args: &Args, acc: &mut Acc, mut single: impl FnMut(&Args, &mut Acc, u64, bool)) {
    if let Some(rp) = &args.replay {
        let seed = rp.get("run_seed").and_then(|j| j.as_i64()).unwrap_or(0) as u64;
        single(args, acc, seed, true);
        return;
    }
    let mut run = 0u64;
    while acc.more() {
        let seed = args.run_seed(run);
        single(args, acc, seed, false);
        run += 1;
    }
}

/// stamps a violation record with what is needed to replay it and files it
pub fn file_violation(args: &Args, acc: &mut Acc, seed: u64, verbose: bool, mut v: J) {
    v.set("run_seed", J::i((seed & 0x7FFF_FFFF_FFFF_FFFF) as i64));
    v.set("run_seed_hex", J::s(hex(seed)));
    v.set("lane", J::s(if args.lane == Lane::Ser { "ser" } else { "free" }));
    if let Some(o) = &args.only { v.set("only", J::s(o)); }
    if verbose { eprintln!("{}", v.to_string()) }
    acc.violation(v);
}

/// a violation record with a single signature
pub fn violation(anomaly: &str, kind: &str, what: String) -> J {
    J::obj().with("what", J::s(what)).with("sigs", J::Arr(vec![J::obj().with("anomaly", J::s(anomaly)).with("kind", J::s(kind))]))
}
