//! Uniform, object-safe adapters over every Uni / Multi channel kind (so workloads are written once).

use crate::payload::{tracker, DTok, Payload, Tok};
use futures::Stream;
use reactive_mutiny::prelude::advanced::*;
use reactive_mutiny::prelude::{ChannelProducer, MutinyStream};
use std::{
    cell::Cell,
    future::Future,
    mem::MaybeUninit,
    pin::Pin,
    sync::{
        atomic::{AtomicBool, AtomicU32, AtomicU64, Ordering::SeqCst},
        Arc, Mutex,
    },
    task::{Context, Poll, Waker},
    time::Duration,
};

#[derive(Clone, Copy, PartialEq, Eq, Debug, Hash)]
pub enum Kind {
    UniMoveAtomic, UniMoveFullSync, UniMoveCrossbeam, UniZcAtomic, UniZcFullSync,
    MultiArcAtomic, MultiArcFullSync, MultiArcCrossbeam, MultiOgreAtomic, MultiOgreFullSync, MultiMmap,
}
pub const UNI_KINDS: [Kind; 5] = [Kind::UniMoveAtomic, Kind::UniMoveFullSync, Kind::UniMoveCrossbeam, Kind::UniZcAtomic, Kind::UniZcFullSync];
pub const MULTI_KINDS: [Kind; 6] = [Kind::MultiArcAtomic, Kind::MultiArcFullSync, Kind::MultiArcCrossbeam, Kind::MultiOgreAtomic, Kind::MultiOgreFullSync, Kind::MultiMmap];
pub const ALL_KINDS: [Kind; 11] = [Kind::UniMoveAtomic, Kind::UniMoveFullSync, Kind::UniMoveCrossbeam, Kind::UniZcAtomic, Kind::UniZcFullSync,
                                   Kind::MultiArcAtomic, Kind::MultiArcFullSync, Kind::MultiArcCrossbeam, Kind::MultiOgreAtomic, Kind::MultiOgreFullSync, Kind::MultiMmap];
impl Kind {
    pub fn name(&self) -> &'static str {
        match self {
            Kind::UniMoveAtomic => "uni.movable.atomic", Kind::UniMoveFullSync => "uni.movable.full_sync", Kind::UniMoveCrossbeam => "uni.movable.crossbeam",
            Kind::UniZcAtomic => "uni.zero_copy.atomic", Kind::UniZcFullSync => "uni.zero_copy.full_sync",
            Kind::MultiArcAtomic => "multi.arc.atomic", Kind::MultiArcFullSync => "multi.arc.full_sync", Kind::MultiArcCrossbeam => "multi.arc.crossbeam",
            Kind::MultiOgreAtomic => "multi.ogre_arc.atomic", Kind::MultiOgreFullSync => "multi.ogre_arc.full_sync", Kind::MultiMmap => "multi.mmap_log",
        }
    }
    pub fn from_name(s: &str) -> Option<Kind> { ALL_KINDS.iter().copied().find(|k| k.name() == s) }
    pub fn is_multi(&self) -> bool { matches!(self, Kind::MultiArcAtomic | Kind::MultiArcFullSync | Kind::MultiArcCrossbeam | Kind::MultiOgreAtomic | Kind::MultiOgreFullSync | Kind::MultiMmap) }
    pub fn is_zero_copy(&self) -> bool { matches!(self, Kind::UniZcAtomic | Kind::UniZcFullSync) }
    pub fn is_pooled(&self) -> bool { matches!(self, Kind::UniZcAtomic | Kind::UniZcFullSync | Kind::MultiOgreAtomic | Kind::MultiOgreFullSync) }
    pub fn is_atomic_ring(&self) -> bool { matches!(self, Kind::UniMoveAtomic | Kind::UniZcAtomic | Kind::MultiArcAtomic | Kind::MultiOgreAtomic) }
    pub fn is_crossbeam(&self) -> bool { matches!(self, Kind::UniMoveCrossbeam | Kind::MultiArcCrossbeam) }
    pub fn has_reserve(&self) -> bool { matches!(self, Kind::UniMoveAtomic | Kind::UniZcAtomic | Kind::UniZcFullSync | Kind::MultiOgreAtomic | Kind::MultiOgreFullSync) }
    pub fn has_async_send(&self) -> bool { !matches!(self, Kind::MultiMmap) }
    /// sends never answer "full" (they wait / grow by documented design)
    pub fn never_rejects(&self) -> bool { matches!(self, Kind::MultiArcAtomic | Kind::MultiArcFullSync | Kind::MultiArcCrossbeam | Kind::MultiMmap) }
}

#[derive(Clone, Copy, Debug)]
pub struct ChanInfo { pub kind: Kind, pub n: usize, pub m: usize, pub droppy: bool }
impl ChanInfo {
    pub fn describe(&self) -> String { format!("{}<N={},M={}{}>", self.kind.name(), self.n, self.m, if self.droppy { ",drop" } else { "" }) }
}

#[derive(Clone, Copy, PartialEq, Eq, Debug)]
pub enum SendRes { Ok, Full }

/// A handle to a delivered payload
pub trait Handle: Send {
    fn id(&self) -> u64;
    fn valid(&self) -> bool;
    fn addr(&self) -> usize;
    fn try_clone(&self) -> Option<Box<dyn Handle>> { None }
    fn refs(&self) -> Option<u32> { None }
    /// unique -> shared conversion (identity for the others)
    fn into_shared(self: Box<Self>) -> Box<dyn Handle>;
    fn is_pooled(&self) -> bool { false }
}

pub struct Item {
    pub id:    u64,
    pub valid: bool,
    pub addr:  usize,
    h:         Option<Box<dyn Handle>>,
    tracked:   bool,
}
impl Item {
    fn new(h: Box<dyn Handle>, tracked: bool) -> Item {
        let (id, valid, addr) = (h.id(), h.valid(), h.addr());
        if tracked && valid { tracker().hold(id) }
        Item { id, valid, addr, h: Some(h), tracked }
    }
    pub fn handle(&self) -> &dyn Handle { &**self.h.as_ref().unwrap() }
    /// re-reads the payload through the handle: (id, valid)
    pub fn reread(&self) -> (u64, bool) { let h = self.handle(); (h.id(), h.valid()) }
    pub fn try_clone(&self) -> Option<Item> {
        self.handle().try_clone().map(|h| Item::new(h, self.tracked))
    }
    pub fn into_shared(mut self) -> Item {
        let h = self.h.take().unwrap();
        let tracked = self.tracked;
        let (id, valid, addr) = (self.id, self.valid, self.addr);
        self.tracked = false;   // ownership of the "hold" moves to the new item
        std::mem::forget(self);
        Item { id, valid, addr, h: Some(h.into_shared()), tracked }
    }
    pub fn refs(&self) -> Option<u32> { self.handle().refs() }
}
impl Drop for Item {
    fn drop(&mut self) {
        // the payload must still be the one that was delivered (its storage is not reused or destroyed while the handle lives)
        if self.valid { let (id2, v2) = self.reread(); if id2 != self.id || !v2 { tracker().problem_pub(format!("changed-under-handle: a live handle to event {} now reads id {id2:#x} (valid pattern: {v2}) -- its storage was destroyed or given to another event", self.id)) } }
        if self.tracked && self.valid { tracker().unhold(self.id) }    // shadow is cleared BEFORE the real release
        crate::sched::point();
        drop(self.h.take());
    }
}

pub trait Strm: Send {
    fn id(&self) -> u32;
    fn poll(&mut self, waker: &Waker) -> Poll<Option<Item>>;
}

/// keeps an async setter pending for as long as the harness wants
#[derive(Clone)]
pub struct Gate(pub Arc<(AtomicBool, AtomicU32)>);
impl Gate {
    pub fn new(open: bool) -> Gate { Gate(Arc::new((AtomicBool::new(open), AtomicU32::new(0)))) }
    pub fn open(&self) { self.0 .0.store(true, SeqCst) }
    pub fn polls(&self) -> u32 { self.0 .1.load(SeqCst) }
}
struct GateFut(Gate);
impl Future for GateFut {
    type Output = ();
    fn poll(self: Pin<&mut Self>, _cx: &mut Context<'_>) -> Poll<()> {
        self.0 .0 .1.fetch_add(1, SeqCst);
        if self.0 .0 .0.load(SeqCst) { Poll::Ready(()) } else { Poll::Pending }
    }
}

pub struct AsyncSend { fut: Pin<Box<dyn Future<Output = SendRes> + Send>> }
impl AsyncSend {
    pub fn poll_once(&mut self, waker: &Waker) -> Poll<SendRes> {
        let mut cx = Context::from_waker(waker);
        self.fut.as_mut().poll(&mut cx)
    }
}

pub struct Resv { ptr: *mut u8, pub seq: u64 }
unsafe impl Send for Resv {}

#[derive(Clone, Copy, PartialEq, Eq, Debug)]
pub enum Sub { New, Joined, Split }

pub type BoxFut<T> = Pin<Box<dyn Future<Output = T> + Send>>;

pub trait Chan: Send + Sync {
    fn info(&self) -> ChanInfo;
    fn send(&self, id: u64) -> SendRes;
    fn send_with(&self, id: u64) -> SendRes;
    fn send_with_async(&self, id: u64, gate: Gate) -> AsyncSend;
    /// Multi Arc kinds only: builds the shared handle outside and sends it
    fn send_derived(&self, _id: u64) -> Option<bool> { None }
    fn reserve(&self) -> Option<Resv>;
    fn fill(&self, r: &Resv, id: u64);
    fn try_send_reserved(&self, r: &Resv) -> bool;
    fn try_cancel(&self, r: &Resv) -> bool;
    fn create_stream(&self) -> Box<dyn Strm>;
    /// log channel only
    fn subscribe(&self, _how: Sub) -> Vec<Box<dyn Strm>> { vec![self.create_stream()] }
    fn pending(&self) -> u32;
    fn running(&self) -> u32;
    fn is_open(&self) -> bool;
    fn cancel_all(&self);
    fn buffer_size(&self) -> u32;
    fn end_all(&self, timeout: Duration) -> BoxFut<u32>;
    fn end_stream(&self, id: u32, timeout: Duration) -> BoxFut<bool>;
    fn flush(&self, timeout: Duration) -> BoxFut<u32>;
    /// anomalies noticed by the adapter itself (rejected input changed, setter invoked on a rejected send, ...)
    fn take_problems(&self) -> Vec<String>;
}

// ------------------------------------------------------------------------------------------------ handles

struct Owned<P: Payload>(P);
impl<P: Payload> Handle for Owned<P> {
    fn id(&self) -> u64 { self.0.id() }
    fn valid(&self) -> bool { self.0.valid() }
    fn addr(&self) -> usize { &self.0 as *const P as usize }
    fn into_shared(self: Box<Self>) -> Box<dyn Handle> { self }
}
struct StdArcH<P: Payload>(Arc<P>);
impl<P: Payload> Handle for StdArcH<P> {
    fn id(&self) -> u64 { self.0.id() }
    fn valid(&self) -> bool { self.0.valid() }
    fn addr(&self) -> usize { Arc::as_ptr(&self.0) as usize }
    fn try_clone(&self) -> Option<Box<dyn Handle>> { Some(Box::new(StdArcH(self.0.clone()))) }
    fn refs(&self) -> Option<u32> { Some(Arc::strong_count(&self.0) as u32) }
    fn into_shared(self: Box<Self>) -> Box<dyn Handle> { self }
}
struct RefH<P: Payload>(&'static P);
impl<P: Payload> Handle for RefH<P> {
    fn id(&self) -> u64 { self.0.id() }
    fn valid(&self) -> bool { self.0.valid() }
    fn addr(&self) -> usize { self.0 as *const P as usize }
    fn try_clone(&self) -> Option<Box<dyn Handle>> { Some(Box::new(RefH(self.0))) }
    fn into_shared(self: Box<Self>) -> Box<dyn Handle> { self }
}
struct UniqueH<P: Payload, A: BoundedOgreAllocator<P> + Send + Sync + 'static>(OgreUnique<P, A>);
impl<P: Payload, A: BoundedOgreAllocator<P> + Send + Sync + 'static> Handle for UniqueH<P, A> {
    fn id(&self) -> u64 { self.0.id() }
    fn valid(&self) -> bool { self.0.valid() }
    fn addr(&self) -> usize { &*self.0 as *const P as usize }
    // both forms of the unique -> shared conversion are driven: the method and the `From` trait (chosen by the event id, so replays agree)
    fn into_shared(self: Box<Self>) -> Box<dyn Handle> { if self.0.id() % 2 == 0 { Box::new(OgreArcH(self.0.into_ogre_arc())) } else { Box::new(OgreArcH(OgreArc::from(self.0))) } }
    fn is_pooled(&self) -> bool { true }
}
struct OgreArcH<P: Payload, A: BoundedOgreAllocator<P> + Send + Sync + 'static>(OgreArc<P, A>);
impl<P: Payload, A: BoundedOgreAllocator<P> + Send + Sync + 'static> Handle for OgreArcH<P, A> {
    fn id(&self) -> u64 { self.0.id() }
    fn valid(&self) -> bool { self.0.valid() }
    fn addr(&self) -> usize { &*self.0 as *const P as usize }
    fn try_clone(&self) -> Option<Box<dyn Handle>> { Some(Box::new(OgreArcH(self.0.clone()))) }
    fn refs(&self) -> Option<u32> { Some(self.0.references_count()) }
    fn into_shared(self: Box<Self>) -> Box<dyn Handle> { self }
    fn is_pooled(&self) -> bool { true }
}

pub trait IntoHandle: Send + 'static { fn into_handle(self) -> Box<dyn Handle>; }
macro_rules! owned_into_handle { ($($t:ty),*) => { $(impl IntoHandle for $t { fn into_handle(self) -> Box<dyn Handle> { Box::new(Owned(self)) } })* } }
owned_into_handle!(Tok, DTok);
impl<P: Payload> IntoHandle for Arc<P> { fn into_handle(self) -> Box<dyn Handle> { Box::new(StdArcH(self)) } }
impl<P: Payload> IntoHandle for &'static P { fn into_handle(self) -> Box<dyn Handle> { Box::new(RefH(self)) } }
impl<P: Payload, A: BoundedOgreAllocator<P> + Send + Sync + 'static> IntoHandle for OgreUnique<P, A> { fn into_handle(self) -> Box<dyn Handle> { Box::new(UniqueH(self)) } }
impl<P: Payload, A: BoundedOgreAllocator<P> + Send + Sync + 'static> IntoHandle for OgreArc<P, A> { fn into_handle(self) -> Box<dyn Handle> { Box::new(OgreArcH(self)) } }

// ------------------------------------------------------------------------------------------------ producer side, shared by Uni and Multi

struct Prod<C, P, D> { c: Arc<C>, problems: Mutex<Vec<String>>, _p: std::marker::PhantomData<fn() -> (P, D)> }

impl<C, P, D> Prod<C, P, D>
where C: ChannelProducer<'static, P, D> + Send + Sync + 'static, P: Payload, D: std::fmt::Debug + 'static {

    fn stat(&self) -> &'static C { unsafe { &*Arc::as_ptr(&self.c) } }
    fn problem(&self, s: String) { let mut p = self.problems.lock().unwrap(); if p.len() < 16 { p.push(s) } }

    fn send(&self, id: u64) -> SendRes {
        match self.c.send(P::make(id)) {
            keen_retry::RetryResult::Ok { .. } => SendRes::Ok,
            keen_retry::RetryResult::Transient { input, .. } => {
                if input.id() != id || !input.valid() { self.problem(format!("rejected send({id}) handed back a different payload: {:?}", input)) }
                SendRes::Full
            }
            keen_retry::RetryResult::Fatal { input, .. } => { self.problem(format!("send({id}) answered Fatal (payload {:?})", input)); SendRes::Full }
        }
    }

    fn send_with(&self, id: u64) -> SendRes {
        let invoked = Cell::new(false);
        let setter = |slot: &mut P| { invoked.set(true); unsafe { std::ptr::write(slot, P::make(id)) } };
        match self.c.send_with(setter) {
            keen_retry::RetryResult::Ok { .. } => {
                if !invoked.get() { self.problem(format!("send_with({id}) reported success without invoking the setter")) }
                SendRes::Ok
            }
            keen_retry::RetryResult::Transient { input, .. } => {
                if invoked.get() { self.problem(format!("rejected send_with({id}) had already invoked the setter")) }
                // the closure handed back must be ours, un-invoked: run it on scratch storage
                let mut scratch = MaybeUninit::<P>::uninit();
                input(unsafe { &mut *scratch.as_mut_ptr() });
                let v = unsafe { scratch.assume_init() };
                if v.id() != id || !v.valid() { self.problem(format!("rejected send_with({id}) handed back a different setter")) }
                SendRes::Full
            }
            keen_retry::RetryResult::Fatal { .. } => { self.problem(format!("send_with({id}) answered Fatal")); SendRes::Full }
        }
    }

    fn send_with_async(&self, id: u64, gate: Gate) -> AsyncSend {
        let keep = self.c.clone();
        let c: &'static C = self.stat();
        let invoked = Arc::new(AtomicBool::new(false));
        let invoked2 = invoked.clone();
        let probs = Arc::new(Mutex::new(Vec::<String>::new()));
        let fut = async move {
            let _keep = keep;
            let setter = move |slot: &'static mut P| async move {
                invoked2.store(true, SeqCst);
                GateFut(gate).await;
                unsafe { std::ptr::write(slot, P::make(id)) };
                slot
            };
            let _ = &probs;
            match c.send_with_async(setter).await {
                keen_retry::RetryResult::Ok { .. } => SendRes::Ok,
                keen_retry::RetryResult::Transient { .. } => {
                    if invoked.load(SeqCst) { eprintln!("rmv: rejected send_with_async({id}) had already invoked the setter") }
                    SendRes::Full
                }
                keen_retry::RetryResult::Fatal { .. } => SendRes::Full,
            }
        };
        AsyncSend { fut: Box::pin(fut) }
    }

    fn reserve(&self) -> Option<Resv> {
        static SEQ: AtomicU64 = AtomicU64::new(1);
        self.c.reserve_slot().map(|s| Resv { ptr: s as *mut P as *mut u8, seq: SEQ.fetch_add(1, SeqCst) })
    }
    fn fill(&self, r: &Resv, id: u64) { unsafe { std::ptr::write(r.ptr as *mut P, P::make(id)) } }
    fn try_send_reserved(&self, r: &Resv) -> bool { self.c.try_send_reserved(unsafe { &mut *(r.ptr as *mut P) }) }
    fn try_cancel(&self, r: &Resv) -> bool { self.c.try_cancel_slot_reserve(unsafe { &mut *(r.ptr as *mut P) }) }
}

struct StrmA<C, P, D>
where C: ChannelConsumer<'static, D> + 'static, P: Payload, D: IntoHandle + std::fmt::Debug {
    s:       MutinyStream<'static, P, C, D>,
    id:      u32,
    tracked: bool,
}
impl<C, P, D> Strm for StrmA<C, P, D>
where C: ChannelConsumer<'static, D> + Send + Sync + 'static, P: Payload, D: IntoHandle + std::fmt::Debug {
    fn id(&self) -> u32 { self.id }
    fn poll(&mut self, waker: &Waker) -> Poll<Option<Item>> {
        let mut cx = Context::from_waker(waker);
        match Pin::new(&mut self.s).poll_next(&mut cx) {
            Poll::Pending => Poll::Pending,
            Poll::Ready(None) => Poll::Ready(None),
            Poll::Ready(Some(d)) => Poll::Ready(Some(Item::new(d.into_handle(), self.tracked))),
        }
    }
}
unsafe impl<C, P, D> Send for StrmA<C, P, D>
where C: ChannelConsumer<'static, D> + 'static, P: Payload, D: IntoHandle + std::fmt::Debug {}

// ------------------------------------------------------------------------------------------------ Uni adapter

pub struct UniA<C: FullDuplexUniChannel, P> { p: Prod<C, P, C::DerivedItemType>, info: ChanInfo }

impl<C, P> Chan for UniA<C, P>
where C: FullDuplexUniChannel<ItemType = P> + Send + Sync + 'static, P: Payload, C::DerivedItemType: IntoHandle {
    fn info(&self) -> ChanInfo { self.info }
    fn send(&self, id: u64) -> SendRes { self.p.send(id) }
    fn send_with(&self, id: u64) -> SendRes { self.p.send_with(id) }
    fn send_with_async(&self, id: u64, gate: Gate) -> AsyncSend { self.p.send_with_async(id, gate) }
    fn reserve(&self) -> Option<Resv> { self.p.reserve() }
    fn fill(&self, r: &Resv, id: u64) { self.p.fill(r, id) }
    fn try_send_reserved(&self, r: &Resv) -> bool { self.p.try_send_reserved(r) }
    fn try_cancel(&self, r: &Resv) -> bool { self.p.try_cancel(r) }
    fn create_stream(&self) -> Box<dyn Strm> {
        let (s, id) = self.p.c.create_stream();
        Box::new(StrmA::<C, P, C::DerivedItemType> { s, id, tracked: P::DROPPY })
    }
    fn pending(&self) -> u32 { self.p.c.pending_items_count() }
    fn running(&self) -> u32 { self.p.c.running_streams_count() }
    fn is_open(&self) -> bool { self.p.c.is_channel_open() }
    fn cancel_all(&self) { self.p.c.cancel_all_streams() }
    fn buffer_size(&self) -> u32 { self.p.c.buffer_size() }
    fn end_all(&self, timeout: Duration) -> BoxFut<u32> { let c = self.p.c.clone(); Box::pin(async move { c.gracefully_end_all_streams(timeout).await }) }
    fn end_stream(&self, id: u32, timeout: Duration) -> BoxFut<bool> { let c = self.p.c.clone(); Box::pin(async move { c.gracefully_end_stream(id, timeout).await }) }
    fn flush(&self, timeout: Duration) -> BoxFut<u32> { let c = self.p.c.clone(); Box::pin(async move { c.flush(timeout).await }) }
    fn take_problems(&self) -> Vec<String> { std::mem::take(&mut *self.p.problems.lock().unwrap()) }
}

fn uni<C, P>(kind: Kind, n: usize, m: usize) -> Arc<dyn Chan>
where C: FullDuplexUniChannel<ItemType = P> + Send + Sync + 'static, P: Payload, C::DerivedItemType: IntoHandle {
    Arc::new(UniA::<C, P> { p: Prod { c: C::new(format!("rmv {}", kind.name())), problems: Mutex::new(Vec::new()), _p: std::marker::PhantomData }, info: ChanInfo { kind, n, m, droppy: P::DROPPY } })
}

// ------------------------------------------------------------------------------------------------ Multi adapter

pub trait DeriveSend<P>: Send + Sync { fn send_derived_id(&self, id: u64) -> Option<bool>; }

pub struct MultiA<C: FullDuplexMultiChannel, P> { p: Prod<C, P, C::DerivedItemType>, info: ChanInfo, arc_derived: bool }

impl<C, P> Chan for MultiA<C, P>
where C: FullDuplexMultiChannel<ItemType = P> + Send + Sync + 'static, P: Payload, C::DerivedItemType: IntoHandle + MaybeFromArc<P> {
    fn info(&self) -> ChanInfo { self.info }
    fn send(&self, id: u64) -> SendRes { self.p.send(id) }
    fn send_with(&self, id: u64) -> SendRes { self.p.send_with(id) }
    fn send_with_async(&self, id: u64, gate: Gate) -> AsyncSend { self.p.send_with_async(id, gate) }
    fn send_derived(&self, id: u64) -> Option<bool> {
        if !self.arc_derived { return None }
        let d = <C::DerivedItemType as MaybeFromArc<P>>::from_payload(P::make(id))?;
        Some(self.p.c.send_derived(&d))
    }
    fn reserve(&self) -> Option<Resv> { self.p.reserve() }
    fn fill(&self, r: &Resv, id: u64) { self.p.fill(r, id) }
    fn try_send_reserved(&self, r: &Resv) -> bool { self.p.try_send_reserved(r) }
    fn try_cancel(&self, r: &Resv) -> bool { self.p.try_cancel(r) }
    fn create_stream(&self) -> Box<dyn Strm> {
        let (s, id) = self.p.c.create_stream_for_new_events();
        Box::new(StrmA::<C, P, C::DerivedItemType> { s, id, tracked: P::DROPPY })
    }
    fn subscribe(&self, how: Sub) -> Vec<Box<dyn Strm>> {
        let t = P::DROPPY;
        match how {
            Sub::New => vec![self.create_stream()],
            Sub::Joined => { let (s, id) = self.p.c.create_stream_for_old_and_new_events(); vec![Box::new(StrmA::<C, P, C::DerivedItemType> { s, id, tracked: t })] }
            Sub::Split => {
                let ((so, ido), (sn, idn)) = self.p.c.create_streams_for_old_and_new_events();
                vec![Box::new(StrmA::<C, P, C::DerivedItemType> { s: so, id: ido, tracked: t }), Box::new(StrmA::<C, P, C::DerivedItemType> { s: sn, id: idn, tracked: t })]
            }
        }
    }
    fn pending(&self) -> u32 { self.p.c.pending_items_count() }
    fn running(&self) -> u32 { self.p.c.running_streams_count() }
    fn is_open(&self) -> bool { self.p.c.is_channel_open() }
    fn cancel_all(&self) { self.p.c.cancel_all_streams() }
    fn buffer_size(&self) -> u32 { self.p.c.buffer_size() }
    fn end_all(&self, timeout: Duration) -> BoxFut<u32> { let c = self.p.c.clone(); Box::pin(async move { c.gracefully_end_all_streams(timeout).await }) }
    fn end_stream(&self, id: u32, timeout: Duration) -> BoxFut<bool> { let c = self.p.c.clone(); Box::pin(async move { c.gracefully_end_stream(id, timeout).await }) }
    fn flush(&self, timeout: Duration) -> BoxFut<u32> { let c = self.p.c.clone(); Box::pin(async move { c.flush(timeout).await }) }
    fn take_problems(&self) -> Vec<String> { std::mem::take(&mut *self.p.problems.lock().unwrap()) }
}

/// "can a derived item be built outside the channel?" (only `Arc<P>`)
pub trait MaybeFromArc<P> { fn from_payload(_p: P) -> Option<Self> where Self: Sized { None } }
impl<P: Payload> MaybeFromArc<P> for Arc<P> { fn from_payload(p: P) -> Option<Self> { Some(Arc::new(p)) } }
impl<P: Payload> MaybeFromArc<P> for &'static P { fn from_payload(p: P) -> Option<Self> { drop(p); None } }
impl<P: Payload, A: BoundedOgreAllocator<P> + Send + Sync + 'static> MaybeFromArc<P> for OgreArc<P, A> { fn from_payload(p: P) -> Option<Self> { drop(p); None } }

fn multi<C, P>(kind: Kind, n: usize, m: usize) -> Arc<dyn Chan>
where C: FullDuplexMultiChannel<ItemType = P> + Send + Sync + 'static, P: Payload, C::DerivedItemType: IntoHandle + MaybeFromArc<P> {
    static MMAP_SEQ: AtomicU64 = AtomicU64::new(0);
    let name = if kind == Kind::MultiMmap { format!("rmv-{}-{}", std::process::id(), MMAP_SEQ.fetch_add(1, SeqCst)) } else { format!("rmv {}", kind.name()) };
    let c = C::new(name.clone());
    if kind == Kind::MultiMmap { let _ = std::fs::remove_file(format!("/tmp/{name}.mmap")); }
    let arc_derived = matches!(kind, Kind::MultiArcAtomic | Kind::MultiArcFullSync | Kind::MultiArcCrossbeam);
    Arc::new(MultiA::<C, P> { p: Prod { c, problems: Mutex::new(Vec::new()), _p: std::marker::PhantomData }, info: ChanInfo { kind, n, m, droppy: P::DROPPY }, arc_derived })
}

// ------------------------------------------------------------------------------------------------ registry

/// (N, M) pairs instantiated for the plain payload
pub const CFGS: [(usize, usize); 9] = [(2, 1), (2, 2), (4, 1), (4, 2), (4, 4), (8, 2), (16, 2), (64, 2), (16, 4)];
/// (N, M) pairs instantiated for the payload with a destructor
pub const CFGS_DROP: [(usize, usize); 3] = [(2, 1), (4, 2), (8, 2)];
/// MAX_STREAMS instantiated for the log channel
pub const MMAP_MS: [usize; 3] = [2, 4, 8];

macro_rules! cfg_match {
    ($p:ty, $kind:expr, $n:expr, $m:expr, [$(($N:literal, $M:literal)),*]) => {
        match ($kind, $n, $m) {
            $(
                (Kind::UniMoveAtomic,     $N, $M) => Some(uni::<ChannelUniMoveAtomic<$p, $N, $M>, $p>($kind, $N, $M)),
                (Kind::UniMoveFullSync,   $N, $M) => Some(uni::<ChannelUniMoveFullSync<$p, $N, $M>, $p>($kind, $N, $M)),
                (Kind::UniMoveCrossbeam,  $N, $M) => Some(uni::<ChannelUniMoveCrossbeam<$p, $N, $M>, $p>($kind, $N, $M)),
                (Kind::UniZcAtomic,       $N, $M) => Some(uni::<ChannelUniZeroCopyAtomic<$p, $N, $M>, $p>($kind, $N, $M)),
                (Kind::UniZcFullSync,     $N, $M) => Some(uni::<ChannelUniZeroCopyFullSync<$p, $N, $M>, $p>($kind, $N, $M)),
                (Kind::MultiArcAtomic,    $N, $M) => Some(multi::<ChannelMultiArcAtomic<$p, $N, $M>, $p>($kind, $N, $M)),
                (Kind::MultiArcFullSync,  $N, $M) => Some(multi::<ChannelMultiArcFullSync<$p, $N, $M>, $p>($kind, $N, $M)),
                (Kind::MultiArcCrossbeam, $N, $M) => Some(multi::<ChannelMultiArcCrossbeam<$p, $N, $M>, $p>($kind, $N, $M)),
                (Kind::MultiOgreAtomic,   $N, $M) => Some(multi::<ChannelMultiOgreArcAtomic<$p, $N, $M>, $p>($kind, $N, $M)),
                (Kind::MultiOgreFullSync, $N, $M) => Some(multi::<ChannelMultiOgreArcFullSync<$p, $N, $M>, $p>($kind, $N, $M)),
            )*
            _ => None,
        }
    }
}

/// Creates a fresh channel of the given kind / BUFFER_SIZE / MAX_STREAMS (None if that combination is not instantiated)
pub fn make(kind: Kind, n: usize, m: usize, droppy: bool) -> Option<Arc<dyn Chan>> {
    if kind == Kind::MultiMmap {
        if droppy { return None }
        return match m {
            2 => Some(multi::<ChannelMultiMmapLog<Tok, 2>, Tok>(kind, 0, 2)),
            4 => Some(multi::<ChannelMultiMmapLog<Tok, 4>, Tok>(kind, 0, 4)),
            8 => Some(multi::<ChannelMultiMmapLog<Tok, 8>, Tok>(kind, 0, 8)),
            _ => None,
        };
    }
    if droppy {
        cfg_match!(DTok, kind, n, m, [(2, 1), (4, 2), (8, 2)])
    } else {
        cfg_match!(Tok, kind, n, m, [(2, 1), (2, 2), (4, 1), (4, 2), (4, 4), (8, 2), (16, 2), (64, 2), (16, 4)])
    }
}

pub fn cfgs_for(kind: Kind, droppy: bool) -> Vec<(usize, usize)> {
    if kind == Kind::MultiMmap { return if droppy { vec![] } else { MMAP_MS.iter().map(|m| (0, *m)).collect() } }
    if droppy { CFGS_DROP.to_vec() } else { CFGS.to_vec() }
}

/// a waker that does nothing (for polling futures the harness re-polls by itself). One single, never-freed object: the library
/// reads its per-stream waker table without the lock under which a *different* waker replaces (and drops) the stored one, so
/// handing it short-lived wakers would make the monitor's own objects the victim of that race.
pub fn noop_waker() -> Waker {
    struct N;
    impl std::task::Wake for N { fn wake(self: Arc<Self>) {} fn wake_by_ref(self: &Arc<Self>) {} }
    static W: std::sync::OnceLock<Waker> = std::sync::OnceLock::new();
    W.get_or_init(|| Waker::from(Arc::new(N))).clone()
}
