//! Sequential scripts against a channel, with a reference model that predicts every answer.
//!
//! One thread, no scheduling: every result is a pure function of the script, so the model is exact -- any disagreement is a
//! violation (C08 reservations, C16 rejected sends / fill-drain cycles), and two runs of one script from different sequence
//! origins must produce identical transcripts (C15).

use crate::chan::{self, Chan, Item, Kind, Resv, SendRes, Strm};
use crate::drive::{send_via, Entry};
use crate::json::J;
use reactive_mutiny::verif as rv;
use std::collections::VecDeque;
use std::sync::Arc;
use std::task::Poll;

#[derive(Clone, Copy, Debug, PartialEq, Eq, Hash)]
pub enum Op {
    Send(Entry),
    Reserve,
    /// fill + try_send_reserved of the oldest / newest open reservation
    SendResvOldest, SendResvNewest,
    CancelNewest, CancelOldest,
    /// poll stream #i (and keep the handle)
    Poll(u8),
    /// poll stream #i and release the handle at once
    PollDrop(u8),
    ReleaseOldest, ReleaseNewest,
    Len,
}

#[derive(Clone, Debug, PartialEq, Eq)]
pub enum R { Ok, Full, Got(u64), Nothing, True, False, Len(u32), Skipped, Panic(String) }

struct Model {
    kind: Kind, n: usize,
    /// Uni: one queue; Multi: one per listener
    queues: Vec<VecDeque<u64>>,
    /// pooled kinds: (event id, handles not yet released) for payloads still occupying a pool slot
    outstanding: Vec<(u64, u32)>,
    reserved: usize,
}
impl Model {
    fn occupancy(&self) -> usize {
        match self.kind {
            Kind::UniMoveAtomic | Kind::UniMoveFullSync | Kind::UniMoveCrossbeam => self.queues[0].len() + self.reserved,
            Kind::UniZcAtomic | Kind::UniZcFullSync | Kind::MultiOgreAtomic | Kind::MultiOgreFullSync => self.outstanding.len() + self.reserved,
            _ => 0,
        }
    }
    fn accept(&mut self, id: u64) {
        if self.kind.is_multi() {
            let l = self.queues.len() as u32;
            for q in self.queues.iter_mut() { q.push_back(id) }
            if self.kind.is_pooled() && l > 0 { self.outstanding.push((id, l)) }
        } else {
            self.queues[0].push_back(id);
            if self.kind.is_pooled() { self.outstanding.push((id, 1)) }
        }
    }
    fn release(&mut self, id: u64) {
        if let Some(p) = self.outstanding.iter().position(|o| o.0 == id) { self.outstanding[p].1 -= 1; if self.outstanding[p].1 == 0 { self.outstanding.remove(p); } }
    }
    fn len(&self) -> u32 { self.queues.iter().map(|q| q.len()).max().unwrap_or(0) as u32 }
}

pub struct Engine {
    pub ch: Arc<dyn Chan>,
    strms: Vec<Box<dyn Strm>>,
    /// (reservation, event id, already filled?) -- a slot is written once: after a `try_send_reserved` that answered "retry" the library has looked at the
    /// slot through its own pointer, and writing through the user's `&mut` again would only add an aliasing-model question none of the properties asks
    resv: VecDeque<(Resv, u64, bool)>,
    held: VecDeque<Item>,
    next_id: u64,
    model: Model,
    pub transcript: Vec<R>,
    pub problems: Vec<String>,
    /// when off, nothing is compared with the model (C15 compares transcripts only)
    pub check_model: bool,
}

pub fn applicable(kind: Kind, op: Op) -> bool {
    match op {
        Op::Send(e) => crate::drive::entries_for(kind).contains(&e) && e != Entry::Derived,
        Op::Reserve | Op::SendResvOldest | Op::SendResvNewest | Op::CancelNewest | Op::CancelOldest => kind.has_reserve(),
        _ => true,
    }
}

impl Engine {
    pub fn new(kind: Kind, n: usize, m: usize, streams: usize, droppy: bool, origin: Option<u32>) -> Option<Engine> {
        rv::set_sequence_origin(origin);
        let ch = chan::make(kind, n, m, droppy);
        rv::set_sequence_origin(None);
        let ch = ch?;
        let strms: Vec<Box<dyn Strm>> = (0..streams).map(|_| ch.create_stream()).collect();
        let nq = if kind.is_multi() { streams } else { 1 };
        Some(Engine { ch, strms, resv: VecDeque::new(), held: VecDeque::new(), next_id: 1, check_model: true,
                      model: Model { kind, n, queues: (0..nq).map(|_| VecDeque::new()).collect(), outstanding: Vec::new(), reserved: 0 }, transcript: Vec::new(), problems: Vec::new() })
    }
    fn problem(&mut self, s: String) { if self.check_model && self.problems.len() < 8 { let at = self.transcript.len(); self.problems.push(format!("step {at}: {s}")) } }
    pub fn open_reservations(&self) -> usize { self.resv.len() }
    pub fn held(&self) -> usize { self.held.len() }
    fn movable_atomic(&self) -> bool { self.model.kind == Kind::UniMoveAtomic }

    /// is `op` something the API permits in the current state? (e.g. no plain send on the movable atomic channel while this thread holds a reservation)
    pub fn legal(&self, op: Op) -> bool {
        if !applicable(self.model.kind, op) { return false }
        match op {
            Op::Send(_) => !(self.movable_atomic() && !self.resv.is_empty()) && !(self.model.kind.never_rejects() && self.model.len() as usize >= self.model.n && self.model.n > 0),
            Op::SendResvOldest | Op::CancelNewest => !self.resv.is_empty(),
            Op::SendResvNewest | Op::CancelOldest => self.resv.len() >= 2 || (!self.resv.is_empty() && !self.movable_atomic()),
            Op::Poll(i) | Op::PollDrop(i) => (i as usize) < self.strms.len(),
            Op::ReleaseOldest | Op::ReleaseNewest => !self.held.is_empty(),
            Op::Reserve | Op::Len => true,
        }
    }

    pub fn step(&mut self, op: Op) -> R {
        let r = if !self.legal(op) { R::Skipped } else { self.do_step(op) };
        self.transcript.push(r.clone());
        r
    }

    fn do_step(&mut self, op: Op) -> R {
        let n = self.model.n;
        let rejecting = !self.model.kind.never_rejects();
        match op {
            Op::Send(e) => {
                let id = self.next_id; self.next_id += 1;
                let before = self.ch.pending();
                let expect_ok = !rejecting || self.model.occupancy() < n;
                let r = send_via(&*self.ch, e, id);
                match r {
                    SendRes::Ok => {
                        if !expect_ok { self.problem(format!("{} accepted event {id} although all {n} slots were taken ({} queued, {} held, {} reserved)", e.name(), self.model.len(), self.model.outstanding.len(), self.model.reserved)) }
                        self.model.accept(id); R::Ok
                    }
                    SendRes::Full => {
                        if expect_ok { self.problem(format!("{} of event {id} was rejected as full although only {} of {n} slots were taken", e.name(), self.model.occupancy())) }
                        let after = self.ch.pending();
                        if after != before { self.problem(format!("a rejected {} changed pending_items_count from {before} to {after}", e.name())) }
                        R::Full
                    }
                }
            }
            Op::Reserve => {
                let expect = self.model.occupancy() < n;
                match self.ch.reserve() {
                    Some(r) => { if !expect { self.problem(format!("reserve_slot handed out a slot although all {n} were taken")) } let id = self.next_id; self.next_id += 1; self.resv.push_back((r, id, false)); self.model.reserved += 1; R::True }
                    None => { if expect { self.problem(format!("reserve_slot answered None although only {} of {n} slots were taken", self.model.occupancy())) } R::False }
                }
            }
            Op::SendResvOldest | Op::SendResvNewest => {
                let idx = if op == Op::SendResvOldest { 0 } else { self.resv.len() - 1 };
                let expect = !self.movable_atomic() || idx == 0;
                let id = self.resv[idx].1;
                if !self.resv[idx].2 { self.ch.fill(&self.resv[idx].0, id); self.resv[idx].2 = true }
                let mut ok = false;
                for _ in 0..if expect { 64 } else { 1 } { if self.ch.try_send_reserved(&self.resv[idx].0) { ok = true; break } }
                if ok {
                    if !expect { self.problem(format!("try_send_reserved answered true for a reservation that is not the oldest one (movable atomic channel publishes in reservation order)")) }
                    self.resv.remove(idx); self.model.reserved -= 1; self.model.accept(id); R::True
                } else {
                    if expect { self.problem(format!("try_send_reserved kept answering false for a slot that could be sent (event {id})")) }
                    R::False
                }
            }
            Op::CancelNewest | Op::CancelOldest => {
                let idx = if op == Op::CancelOldest { 0 } else { self.resv.len() - 1 };
                let expect = !self.movable_atomic() || idx == self.resv.len() - 1;
                let mut ok = false;
                for _ in 0..if expect { 64 } else { 1 } { if self.ch.try_cancel(&self.resv[idx].0) { ok = true; break } }
                if ok {
                    if !expect { self.problem(format!("try_cancel_slot_reserve answered true for a reservation that is not the newest one")) }
                    self.resv.remove(idx); self.model.reserved -= 1; R::True
                } else {
                    if expect { self.problem(format!("try_cancel_slot_reserve kept answering false for the newest reservation")) }
                    R::False
                }
            }
            Op::Poll(i) | Op::PollDrop(i) => {
                let qi = if self.model.kind.is_multi() { i as usize } else { 0 };
                let expect = self.model.queues[qi].front().copied();
                match self.strms[i as usize].poll(&chan::noop_waker()) {
                    Poll::Ready(Some(item)) => {
                        if !item.valid { self.problem(format!("stream {i} yielded a corrupted payload (id field {:#x})", item.id)) }
                        match expect {
                            Some(e) if e == item.id => { self.model.queues[qi].pop_front(); }
                            Some(e) => { self.problem(format!("stream {i} yielded {} where {e} was next", item.id)); if let Some(p) = self.model.queues[qi].iter().position(|x| *x == item.id) { self.model.queues[qi].remove(p); } }
                            None => self.problem(format!("stream {i} yielded {} although nothing was pending for it", item.id)),
                        }
                        let id = item.id;
                        if matches!(op, Op::PollDrop(_)) || !self.model.kind.is_pooled() { drop(item); self.model.release(id) } else { self.held.push_back(item) }
                        R::Got(id)
                    }
                    Poll::Ready(None) => { self.problem(format!("stream {i} ended by itself")); R::Nothing }
                    Poll::Pending => { if let Some(e) = expect { self.problem(format!("stream {i} found nothing although event {e} was pending for it")) } R::Nothing }
                }
            }
            Op::ReleaseOldest | Op::ReleaseNewest => {
                let it = if op == Op::ReleaseOldest { self.held.pop_front() } else { self.held.pop_back() }.unwrap();
                let (id2, v2) = it.reread();
                if id2 != it.id || !v2 { self.problem(format!("a held handle to event {} now reads as id {id2} (valid={v2})", it.id)) }
                let id = it.id; drop(it); self.model.release(id);
                R::True
            }
            Op::Len => {
                let l = self.ch.pending();
                if l != self.model.len() { self.problem(format!("pending_items_count is {l}, the model says {}", self.model.len())) }
                R::Len(l)
            }
        }
    }

    /// resolves every open reservation in a legal order, drains and releases everything, then counts how many events the emptied
    /// channel accepts: must be exactly BUFFER_SIZE (rejecting kinds). Leaves the channel empty.
    pub fn finish(&mut self, cancel_rest: bool) {
        while !self.resv.is_empty() {
            let r = if cancel_rest { self.step(Op::CancelNewest) } else { self.step(Op::SendResvOldest) };
            if r != R::True { break }
        }
        self.drain();
        if !self.model.kind.never_rejects() && self.resv.is_empty() {
            let n = self.model.n;
            let mut accepted = 0;
            for _ in 0..n + 2 { if self.step(Op::Send(Entry::Send)) == R::Ok { accepted += 1 } else { break } }
            if accepted != n && !self.model.kind.is_multi() { self.problem(format!("after everything was consumed and released the channel accepted {accepted} events, not BUFFER_SIZE = {n}")) }
            if accepted != n && self.model.kind.is_multi() && !self.strms.is_empty() { self.problem(format!("after everything was consumed and released the channel accepted {accepted} events, not BUFFER_SIZE = {n}")) }
            // a Multi channel without listeners releases every accepted event at once: nothing may stay occupied, every send is accepted
            if accepted != n + 2 && self.model.kind.is_multi() && self.strms.is_empty() { self.problem(format!("a Multi channel without listeners accepted only {accepted} of {} sends in a row: accepted events keep occupying storage although nobody is entitled to them", n + 2)) }
            self.drain();
        }
    }
    pub fn drain(&mut self) {
        while !self.held.is_empty() { self.step(Op::ReleaseOldest); }
        for i in 0..self.strms.len() as u8 {
            let mut guard = 0;
            while matches!(self.step(Op::PollDrop(i)), R::Got(_)) { guard += 1; if guard > 100_000 { self.problem("a stream keeps yielding".into()); break } }
        }
    }
    /// tear the channel down with whatever is still buffered (streams first -- handles and streams never outlive the channel)
    pub fn teardown(mut self) -> (Vec<R>, Vec<String>) {
        self.held.clear();
        self.strms.clear();
        let t = std::mem::take(&mut self.transcript); let p = std::mem::take(&mut self.problems);
        drop(self);
        (t, p)
    }
    pub fn transcript_json(&self) -> J { J::Arr(self.transcript.iter().map(|r| J::s(format!("{:?}", r))).collect()) }
}

pub fn script_json(s: &[Op]) -> J { J::Arr(s.iter().map(|o| J::s(format!("{:?}", o))).collect()) }
