//! TOKIO lane helpers: executor-level workloads run on real tokio runtimes -- a current-thread runtime with paused (virtual)
//! time, which is deterministic, or a multi-thread runtime with 2..8 workers. Each run lives on its own OS thread under a
//! generous wall-clock watchdog whose firing is *inconclusive*, never a verdict.

use std::future::Future;
use std::sync::atomic::{AtomicI32, AtomicU32, AtomicU64, Ordering::SeqCst};
use std::sync::{Arc, Mutex};
use std::time::Duration;

#[derive(Clone, Copy, Debug, PartialEq, Eq)]
pub enum Rt { CurrentPaused, Multi(usize) }
impl Rt { pub fn describe(&self) -> String { match self { Rt::CurrentPaused => "current-thread runtime, paused (virtual) time".into(), Rt::Multi(w) => format!("multi-thread runtime, {w} workers") } } }

/// Runs `make()`'s future to completion on a fresh runtime of the given kind, on a fresh OS thread. None = the watchdog fired.
pub fn run<T: Send + 'static, F: Future<Output = T> + 'static>(rt: Rt, watchdog: Duration, make: impl FnOnce() -> F + Send + 'static) -> Option<T> {
    let (tx, rx) = std::sync::mpsc::channel();
    std::thread::Builder::new().stack_size(2 << 20).spawn(move || {
        let runtime = match rt {
            Rt::CurrentPaused => tokio::runtime::Builder::new_current_thread().enable_time().start_paused(true).build(),
            Rt::Multi(w) => {
                // the worker threads inject random delays at the library's hook sites (none / light / heavy, changing from run to run)
                static RUNS: AtomicU64 = AtomicU64::new(0);
                let r = RUNS.fetch_add(1, SeqCst);
                let level = (r % 3) as u8;
                tokio::runtime::Builder::new_multi_thread().worker_threads(w).enable_time()
                    .on_thread_start(move || { static T: AtomicU64 = AtomicU64::new(1); crate::sched::enable_thread_chaos(level, r.wrapping_mul(0x9E3779B97F4A7C15) ^ T.fetch_add(1, SeqCst) << 17) }).build()
            }
        }.expect("tokio runtime");
        let out = runtime.block_on(make());
        let _ = tx.send(out);
        runtime.shutdown_background();
    }).expect("spawn");
    rx.recv_timeout(watchdog).ok()
}

/// Per-run ledger kept by the pipeline items themselves
#[derive(Default)]
pub struct Ledger {
    pub in_flight: AtomicI32,
    pub max_in_flight: AtomicI32,
    /// per item: 0 not started, 1 started, 2 completed, 3 dropped before completion (cancelled)
    pub state: Mutex<Vec<u8>>,
    pub clock: AtomicU64,
    /// (item, started stamp, finished stamp)
    pub stamps: Mutex<Vec<(u32, u64, u64)>>,
    pub err_callbacks: Mutex<Vec<u32>>,
    /// the error callbacks that ran to their end (an asynchronous callback may take a while)
    pub err_callbacks_completed: Mutex<Vec<u32>>,
    pub close_calls: AtomicU32,
    /// (item, microseconds between the construction of the item future -- which precedes the executor wrapping it into its timeout -- and its drop)
    /// for items dropped before completion, on the runtime's own clock (virtual under the paused runtime, real otherwise): a timeout may cancel an
    /// item only after that long. (Measured from the first poll instead, a loaded machine can put a millisecond between the creation of the timeout
    /// and the first poll and make a correct executor look early.)
    pub cancelled_after_us: Mutex<Vec<(u32, u64)>>,
}
impl Ledger {
    pub fn new(items: usize) -> Arc<Ledger> { let l = Ledger::default(); *l.state.lock().unwrap() = vec![0; items]; *l.stamps.lock().unwrap() = (0..items as u32).map(|i| (i, 0, 0)).collect(); Arc::new(l) }
    pub fn stamp(&self) -> u64 { self.clock.fetch_add(1, SeqCst) + 1 }
    pub fn grow(&self, items: usize) { let mut s = self.state.lock().unwrap(); while s.len() < items { let i = s.len() as u32; s.push(0); self.stamps.lock().unwrap().push((i, 0, 0)) } }
}

/// created at the first poll of an item future; its drop tells whether the item completed or was cancelled
pub struct Guard { pub ledger: Arc<Ledger>, pub item: u32, pub completed: bool, pub t0: tokio::time::Instant }
impl Guard {
    pub fn start(ledger: &Arc<Ledger>, item: u32) -> Guard {
        let n = ledger.in_flight.fetch_add(1, SeqCst) + 1;
        ledger.max_in_flight.fetch_max(n, SeqCst);
        ledger.state.lock().unwrap()[item as usize] = 1;
        let st = ledger.stamp(); ledger.stamps.lock().unwrap()[item as usize].1 = st;
        Guard { ledger: ledger.clone(), item, completed: false, t0: tokio::time::Instant::now() }
    }
    /// `born`: when the item future was constructed (before the executor got hold of it)
    pub fn start_born(ledger: &Arc<Ledger>, item: u32, born: tokio::time::Instant) -> Guard { let mut g = Guard::start(ledger, item); g.t0 = born; g }
    pub fn complete(mut self) { self.completed = true; }
}
impl Drop for Guard {
    fn drop(&mut self) {
        self.ledger.in_flight.fetch_sub(1, SeqCst);
        self.ledger.state.lock().unwrap()[self.item as usize] = if self.completed { 2 } else { 3 };
        if !self.completed { self.ledger.cancelled_after_us.lock().unwrap().push((self.item, self.t0.elapsed().as_micros() as u64)) }
        let st = self.ledger.stamp(); self.ledger.stamps.lock().unwrap()[self.item as usize].2 = st;
    }
}

#[derive(Debug)]
pub struct ItemError(pub u32);
impl std::fmt::Display for ItemError { fn fmt(&self, f: &mut std::fmt::Formatter<'_>) -> std::fmt::Result { write!(f, "item {} failed", self.0) } }
impl std::error::Error for ItemError {}

/// yields to the scheduler `n` times
pub async fn yields(n: u32) { for _ in 0..n { tokio::task::yield_now().await } }
