#![allow(dead_code)]
//! rmv -- runtime-monitoring harness for reactive-mutiny (see /verif/DESIGN.md)
//!
//! usage: rmv <PROP> --lane ser|free --tier quick|thorough --seed S --shard I --nshards N --secs T --runs R --out FILE
//!            [--only NAME] [--replay FILE] [--flavor NAME] [--set k=v]...

mod json;
mod sched;
mod payload;
mod chan;
mod common;
mod drive;
mod lin;
mod seq;
mod tk;
mod props;

use common::{Acc, Args};
use json::J;
use sched::Lane;

fn main() {
    let argv: Vec<String> = std::env::args().collect();
    if argv.len() < 2 { eprintln!("usage: rmv <PROP> [options]"); std::process::exit(2) }
    if argv[1] == "noop" { return }   // (lets `cargo miri run` build the interpreter's copy of the harness once, before the shards start)
    let mut args = Args {
        prop: argv[1].clone(), lane: Lane::Ser, tier: "quick".into(), seed: 1, shard: 0, nshards: 1, secs: 10.0, runs: u64::MAX,
        out: String::new(), only: None, replay: None, flavor: "fast".into(), extra: Vec::new(),
    };
    let mut i = 2;
    while i < argv.len() {
        let v = argv.get(i + 1).cloned().unwrap_or_default();
        match argv[i].as_str() {
            "--lane" => args.lane = if v == "free" { Lane::Free } else { Lane::Ser },
            "--tier" => args.tier = v,
            "--seed" => args.seed = v.parse().unwrap_or(1),
            "--shard" => args.shard = v.parse().unwrap_or(0),
            "--nshards" => args.nshards = v.parse().unwrap_or(1),
            "--secs" => args.secs = v.parse().unwrap_or(10.0),
            "--runs" => args.runs = v.parse().unwrap_or(u64::MAX),
            "--out" => args.out = v,
            "--only" => args.only = Some(v),
            "--flavor" => args.flavor = v,
            "--replay" => {
                let txt = std::fs::read_to_string(&v).unwrap_or_else(|e| { eprintln!("cannot read replay file {v}: {e}"); std::process::exit(2) });
                let j = json::parse(&txt).unwrap_or_else(|e| { eprintln!("cannot parse replay file {v}: {e}"); std::process::exit(2) });
                if let Some(l) = j.get("lane").and_then(|l| l.as_str()) { args.lane = if l == "free" { Lane::Free } else { Lane::Ser } }
                if let Some(o) = j.get("only").and_then(|l| l.as_str()) { args.only = Some(o.to_string()) }
                args.replay = Some(j);
            }
            "--set" => { if let Some((k, val)) = v.split_once('=') { args.extra.push((k.to_string(), val.to_string())) } }
            other => { eprintln!("unknown option {other}"); std::process::exit(2) }
        }
        i += 2;
    }
    sched::install_hooks();
    let mut acc = Acc::new(&args);
    match args.prop.as_str() {
        "C01" => props::c01::run(&args, &mut acc),
        "C02" => props::c02::run(&args, &mut acc),
        "C03" => props::c03::run(&args, &mut acc),
        "C04" => props::c04::run(&args, &mut acc),
        "C05" => props::c05::run(&args, &mut acc),
        "C06" => props::c06::run(&args, &mut acc),
        "C07" => props::c07::run(&args, &mut acc),
        "C08" => props::c08::run(&args, &mut acc),
        "C09" => props::c09::run(&args, &mut acc),
        "C10" => props::c10::run(&args, &mut acc),
        "C11" => props::c11::run(&args, &mut acc),
        "C12" => props::c12::run(&args, &mut acc),
        "C13" => props::c13::run(&args, &mut acc),
        "C15" => props::c15::run(&args, &mut acc),
        "C14" => props::c14::run(&args, &mut acc),
        "C16" => props::c16::run(&args, &mut acc),
        "C17" => props::c17::run(&args, &mut acc),
        "C18" => props::c18::run(&args, &mut acc),
        "C19" => props::c19::run(&args, &mut acc),
        "C20" => props::c20::run(&args, &mut acc),
        p => { eprintln!("unknown property {p}"); std::process::exit(2) }
    }
    let out = acc.to_json(&args);
    if args.out.is_empty() {
        let mut brief = out.clone();
        brief.set("distinct", J::i(acc.distinct.len() as i64));
        println!("{}", brief.to_string());
    } else {
        std::fs::write(&args.out, out.to_string()).expect("write shard output");
    }
    // frozen / leaked threads must not keep the process alive
    std::process::exit(if acc.violations.is_empty() { 0 } else { 1 });
}
