//! The two ways of producing interleavings:
//!   * SER  -- the *conductor*: registered OS threads are serialized; exactly one holds the token; at every hook site
//!             the conductor decides (seeded) who runs next. Quiescence and stalls are exact states, not time-outs.
//!   * FREE -- chaos: the threads really run in parallel on all cores and the hook injects random delays.

use crate::json::J;
use reactive_mutiny::verif as rv;
use std::{
    cell::Cell,
    panic::{catch_unwind, AssertUnwindSafe},
    sync::{
        atomic::{AtomicBool, AtomicU32, AtomicU64, AtomicU8, Ordering::{Relaxed, SeqCst}},
        Arc, Condvar, Mutex,
    },
    task::{Wake, Waker},
    time::{Duration, Instant},
};

// harness-level sites (beyond the library's table)
pub const H_BASE:  u32 = 1000;
pub const H_SPIN:  u32 = H_BASE;       // harness retry loop (kind SPIN)
pub const H_POINT: u32 = H_BASE + 1;   // between two harness-level operations
pub const H_OP:    u32 = H_BASE + 2;   // an operation of the script completed (resets the streak)

pub const MAX_SITES: usize = 160;
/// OS threads ended by `freeze` (their stacks stay mapped): a shard stops early when this gets large, the driver starts a fresh process
pub static LEAKED_THREADS: AtomicU64 = AtomicU64::new(0);

#[cfg(all(target_arch = "x86_64", target_os = "linux"))]
fn exit_this_thread() -> ! {
    // SYS_exit ends the calling thread only (no unwinding, no TLS destructors); its kernel thread and pid are released
    unsafe { std::arch::asm!("syscall", in("rax") 60, in("rdi") 0, options(noreturn)) }
}
#[cfg(not(all(target_arch = "x86_64", target_os = "linux")))]
fn exit_this_thread() -> ! { loop { std::thread::park() } }

/// kernel thread id of the caller (0 where unavailable) and the scheduling state letter of a thread of this process ('R' running / runnable, 'S' sleeping in a wait, ...)
#[cfg(all(target_arch = "x86_64", target_os = "linux", not(miri)))]
pub fn os_tid() -> u32 { let r: i64; unsafe { std::arch::asm!("syscall", inlateout("rax") 186i64 => r, out("rcx") _, out("r11") _, options(nostack)) } r as u32 }
#[cfg(not(all(target_arch = "x86_64", target_os = "linux", not(miri))))]
pub fn os_tid() -> u32 { 0 }
pub fn os_thread_state(tid: u32) -> Option<char> {
    if tid == 0 { return None }
    let s = std::fs::read_to_string(format!("/proc/self/task/{tid}/stat")).ok()?;
    s.rsplit_once(") ")?.1.chars().next()
}

#[allow(clippy::declare_interior_mutable_const)]
const ZERO64: AtomicU64 = AtomicU64::new(0);
pub static SITE_HITS: [AtomicU64; MAX_SITES] = [ZERO64; MAX_SITES];

#[derive(Clone, Copy, PartialEq, Eq, Debug)]
pub enum Lane { Ser, Free }

// --------------------------------------------------------------------------------------------- rng

#[derive(Clone, Debug)]
pub struct Rng(pub u64);
impl Rng {
    pub fn new(seed: u64) -> Self { let mut r = Rng(seed ^ 0x9E3779B97F4A7C15); r.next(); r }
    #[inline] pub fn next(&mut self) -> u64 {
        // splitmix64
        self.0 = self.0.wrapping_add(0x9E3779B97F4A7C15);
        let mut z = self.0;
        z = (z ^ (z >> 30)).wrapping_mul(0xBF58476D1CE4E5B9);
        z = (z ^ (z >> 27)).wrapping_mul(0x94D049BB133111EB);
        z ^ (z >> 31)
    }
    #[inline] pub fn below(&mut self, n: u64) -> u64 { if n == 0 { 0 } else { self.next() % n } }
    #[inline] pub fn range(&mut self, lo: u64, hi_incl: u64) -> u64 { lo + self.below(hi_incl - lo + 1) }
    #[inline] pub fn chance(&mut self, num: u64, den: u64) -> bool { self.below(den) < num }
    #[inline] pub fn f64(&mut self) -> f64 { (self.next() >> 11) as f64 / (1u64 << 53) as f64 }
    pub fn pick<'a, T>(&mut self, v: &'a [T]) -> &'a T { &v[self.below(v.len() as u64) as usize] }
    pub fn fork(&mut self) -> Rng { Rng::new(self.next()) }
}
pub fn mix(a: u64, b: u64) -> u64 { let mut r = Rng(a ^ b.rotate_left(32) ^ 0xD6E8FEB86659FD93); r.next() }

// --------------------------------------------------------------------------------------------- site tables

pub fn site_name(site: u32) -> String {
    if site >= H_BASE {
        match site { H_SPIN => "H_SPIN".into(), H_POINT => "H_POINT".into(), H_OP => "H_OP".into(), s => format!("H_{}", s) }
    } else {
        rv::SITES.get(site as usize).map(|s| s.to_string()).unwrap_or_else(|| format!("SITE_{site}"))
    }
}
pub fn site_id(name: &str) -> Option<u32> { rv::SITES.iter().position(|s| *s == name).map(|i| i as u32) }

/// sites lexically inside a retry loop: hitting them does not prove progress
fn is_loop_site(site: u32) -> bool {
    matches!(site,
        rv::SYNC_LOCK_SPIN | rv::AM_LEAK_FULL_BEFORE_RECEDE | rv::AM_LEAK_RECEDE_FAILED | rv::AM_PUBLISH_SPIN |
        rv::AM_CONSUME_EMPTY_BEFORE_RECEDE | rv::AM_CONSUME_RECEDE_FAILED | rv::AM_RELEASE_SPIN |
        rv::MMAP_PUBLISH_SPIN | rv::MMAP_CONSUME_RECEDE_SPIN | rv::STACK_SPIN | rv::STACK_BEFORE_SWAP |
        rv::SM_FLUSH_WAIT | rv::SM_END_STREAM_WAIT | rv::SM_END_ALL_WAIT | H_SPIN)
}

// --------------------------------------------------------------------------------------------- strategies / config

#[derive(Clone, Debug)]
pub enum Strategy {
    /// at every preemption point switch with probability `p_num / 100`
    Random { p_pct: u32 },
    /// PCT: random priorities + `depth - 1` priority change points in the first `est_steps` steps
    Pct { depth: u32, est_steps: u32 },
    /// random walk + suspend `tid` at its `nth` hit of `site` until everybody else is done/parked/spinning or `budget` steps went by
    PauseAt { p_pct: u32, tid: usize, site: u32, nth: u32, budget: u64 },
    /// round-robin with a quantum of `q` steps
    RoundRobin { q: u32 },
}
impl Strategy {
    pub fn describe(&self) -> String {
        match self {
            Strategy::Random { p_pct } => format!("random(p={p_pct}%)"),
            Strategy::Pct { depth, est_steps } => format!("pct(d={depth},n={est_steps})"),
            Strategy::PauseAt { p_pct, tid, site, nth, budget } => format!("pause(t{tid}@{}#{nth},budget={budget},p={p_pct}%)", site_name(*site)),
            Strategy::RoundRobin { q } => format!("rr(q={q})"),
        }
    }
    pub fn kind(&self) -> &'static str {
        match self { Strategy::Random{..} => "random", Strategy::Pct{..} => "pct", Strategy::PauseAt{..} => "pause", Strategy::RoundRobin{..} => "rr" }
    }
}

#[derive(Clone, Debug)]
pub struct RunCfg {
    pub lane:      Lane,
    pub seed:      u64,
    pub strategy:  Strategy,
    pub max_steps: u64,
    pub stall_k:   u32,
    /// FREE: 0 none, 1 light, 2 heavy
    pub chaos:     u8,
    /// FREE: wall-clock watchdog (firing = inconclusive)
    pub watchdog:  Duration,
    /// record the (step, tid, site) trace (SER)
    pub trace:     bool,
    /// SER: reaching the step cap while exactly one thread is runnable and every other thread has finished is a stall of that thread (an operation that
    /// does not complete in a bounded number of its own steps although nobody else exists who could help) instead of an inconclusive run
    pub lone_thread_step_cap_is_stall: bool,
    /// SER, targeted pause: only hits inside a region the thread itself marked (`set_mark(true)` .. `set_mark(false)`) are counted -- so that the pause can be
    /// aimed at one particular operation of a script ("the drop of this listener") rather than at the n-th hit of a site anywhere
    pub pause_marked_only: bool,
    /// SER, 0 = off: when the step cap is reached and EVERY thread that can still run has taken at least this many steps of its own since it last completed an
    /// operation of its script (`op_done`), the run is a stall -- operations that do not complete in a bounded number of their own steps while nobody who could
    /// help is making progress either -- instead of an inconclusive run. (The streak rule cannot see a retry loop that passes through non-loop sites, e.g. one that
    /// re-reserves and re-queries on every round.)
    pub per_op_step_bound: u64,
    /// SER: the thread that holds the token has passed no hook site for 2 s and its kernel thread is *sleeping* (state 'S' at two looks 0.5 s apart): it sits in a
    /// blocking wait inside the operation it called. Under the conductor every other thread is suspended, so in this run nobody will ever end that wait -- for a
    /// workload whose operations are meant to return instead of waiting (C16: a send on a full buffer) that is the stall verdict; without this flag it is what it
    /// always was: a run for the wall-clock watchdog (inconclusive). A thread that is merely starved of CPU is in state 'R', never 'S'.
    pub blocked_token_holder_is_stall: bool,
}
impl RunCfg {
    pub fn ser(seed: u64, strategy: Strategy) -> Self {
        Self { lane: Lane::Ser, seed, strategy, max_steps: 200_000, stall_k: 600, chaos: 0, watchdog: Duration::from_secs(30), trace: false, lone_thread_step_cap_is_stall: false, pause_marked_only: false, per_op_step_bound: 0, blocked_token_holder_is_stall: false }
    }
    pub fn free(seed: u64, chaos: u8) -> Self {
        Self { lane: Lane::Free, seed, strategy: Strategy::Random { p_pct: 0 }, max_steps: u64::MAX, stall_k: 0, chaos, watchdog: Duration::from_secs(30), trace: false, lone_thread_step_cap_is_stall: false, pause_marked_only: false, per_op_step_bound: 0, blocked_token_holder_is_stall: false }
    }
}

#[derive(Clone, Debug, PartialEq)]
pub enum Outcome {
    /// every thread finished its script
    Done,
    /// nobody can run any more; the listed threads are parked without a pending wake (they were then told to give up)
    Quiescent { parked: Vec<usize> },
    /// every thread that could run is spinning in a retry loop without anybody being able to change what it polls
    Stall { spinners: Vec<(usize, u32)>, gated: Vec<usize> },
    /// step cap (SER) -- inconclusive
    StepCap,
    /// wall-clock watchdog (FREE) -- inconclusive
    Watchdog,
}

#[derive(Clone, Debug)]
pub struct Report {
    pub outcome:    Outcome,
    pub steps:      u64,
    pub switches:   u64,
    pub sched_hash: u64,
    /// panics of harness threads (tid, message) -- library panics end up here too
    pub panics:     Vec<(usize, String)>,
    pub trace:      Vec<(u32, u32)>,   // (tid, site) per step, if requested
    pub pause_hit:  bool,
    pub frozen:     usize,
}
impl Report {
    pub fn inconclusive(&self) -> bool { matches!(self.outcome, Outcome::StepCap | Outcome::Watchdog) }
    pub fn outcome_json(&self) -> J {
        match &self.outcome {
            Outcome::Done => J::s("done"),
            Outcome::Quiescent { parked } => J::obj().with("quiescent_parked", J::Arr(parked.iter().map(|t| J::i(*t as i64)).collect())),
            Outcome::Stall { spinners, gated } => J::obj()
                .with("stall", J::Arr(spinners.iter().map(|(t, s)| J::s(format!("t{t}@{}", site_name(*s)))).collect()))
                .with("gated", J::Arr(gated.iter().map(|t| J::i(*t as i64)).collect())),
            Outcome::StepCap => J::s("step_cap"),
            Outcome::Watchdog => J::s("watchdog"),
        }
    }
}

// --------------------------------------------------------------------------------------------- thread-local registration

#[derive(Clone, Copy)]
enum Tl {
    None,
    Ser  { sh: *const Shared, tid: usize },
    Free { co: *const FreeCoord, tid: usize },
}
thread_local! {
    static TL:       Cell<Tl>  = const { Cell::new(Tl::None) };
    static CHAOS:    Cell<u64> = const { Cell::new(0) };
    static CHAOS_LV: Cell<u8>  = const { Cell::new(0) };
    /// per-thread log of (library site, stamp) hits, when the thread asked for one (`site_log_start`)
    static SITE_LOG: std::cell::RefCell<Option<Vec<(u32, u64)>>> = const { std::cell::RefCell::new(None) };
}
/// starts (or restarts) recording the calling thread's hits of library hook sites together with a stamp of the global logical clock
thread_local! {
    /// a counter of hook-site hits of this thread that another thread can read (sequential lanes: is a script that does not return still taking steps?)
    static STEP_COUNTER: std::cell::RefCell<Option<Arc<AtomicU64>>> = const { std::cell::RefCell::new(None) };
}
pub fn count_steps_into(c: Arc<AtomicU64>) { STEP_COUNTER.with(|s| *s.borrow_mut() = Some(c)) }
pub fn site_log_start() { SITE_LOG.with(|l| *l.borrow_mut() = Some(Vec::new())) }
/// what was recorded since `site_log_start`; recording goes on
pub fn site_log_take() -> Vec<(u32, u64)> { SITE_LOG.with(|l| l.borrow_mut().as_mut().map(std::mem::take).unwrap_or_default()) }
pub fn site_log_stop() { SITE_LOG.with(|l| *l.borrow_mut() = None) }

pub fn my_tid() -> usize {
    match TL.with(|t| t.get()) { Tl::Ser { tid, .. } | Tl::Free { tid, .. } => tid, Tl::None => usize::MAX }
}
pub fn lane() -> Option<Lane> {
    match TL.with(|t| t.get()) { Tl::Ser { .. } => Some(Lane::Ser), Tl::Free { .. } => Some(Lane::Free), Tl::None => None }
}

static INSTALLED: AtomicBool = AtomicBool::new(false);
pub fn install_hooks() {
    if !INSTALLED.swap(true, SeqCst) {
        rv::install(Some(hook));
        rv::install_note(Some(note_hook));
        // silence the default panic message for panics we expect to catch per run
        let default = std::panic::take_hook();
        std::panic::set_hook(Box::new(move |info| {
            // panics of the main thread (the harness itself) are never silenced; RMV_LOUD=1 shows all of them
            if QUIET_PANICS.load(Relaxed) && my_tid() != usize::MAX && std::env::var_os("RMV_LOUD").is_none() { return }
            default(info)
        }));
    }
}
pub static QUIET_PANICS: AtomicBool = AtomicBool::new(true);

fn hook(site: u32, kind: u32) {
    if (site as usize) < MAX_SITES { SITE_HITS[site as usize].fetch_add(1, Relaxed); }
    let _ = STEP_COUNTER.try_with(|c| if let Ok(c) = c.try_borrow() { if let Some(c) = c.as_ref() { c.fetch_add(1, Relaxed); } });
    if site < H_BASE { let _ = SITE_LOG.try_with(|l| if let Ok(mut l) = l.try_borrow_mut() { if let Some(v) = l.as_mut() { if v.len() < 4096 { v.push((site, crate::drive::stamp())) } } }); }
    match TL.with(|t| t.get()) {
        Tl::None => chaos_delay(kind),      // (no effect unless the thread asked for delays: `enable_thread_chaos`, used by the tokio lanes' worker threads)
        Tl::Ser { sh, tid } => unsafe { &*sh }.on_site(tid, site, kind),
        Tl::Free { .. } => chaos_delay(kind),
    }
}

pub static RETAINED_WAKERS: Mutex<Vec<Waker>> = Mutex::new(Vec::new());

/// observations reported by the library during the current run: (tid, site, value, stamp)
pub static NOTES: Mutex<Vec<(usize, u32, u64, u64)>> = Mutex::new(Vec::new());
fn note_hook(site: u32, value: u64) {
    let tid = my_tid();
    if tid == usize::MAX { return }
    let stamp = crate::drive::stamp();
    let mut n = NOTES.lock().unwrap();
    if n.len() < 100_000 { n.push((tid, site, value, stamp)) }
}
pub fn take_notes() -> Vec<(usize, u32, u64, u64)> { std::mem::take(&mut *NOTES.lock().unwrap()) }

/// makes the calling (unregistered) thread inject random delays at the library's hook sites, like the threads of a FREE run
pub fn enable_thread_chaos(level: u8, seed: u64) { CHAOS_LV.with(|c| c.set(level)); CHAOS.with(|c| c.set(seed | 1)) }

#[inline(never)]
fn chaos_delay(kind: u32) {
    let lv = CHAOS_LV.with(|c| c.get());
    if lv == 0 { return }
    let mut x = CHAOS.with(|c| c.get());
    x ^= x << 13; x ^= x >> 7; x ^= x << 17;
    CHAOS.with(|c| c.set(x));
    let r = x >> 16;
    let (spin_den, yield_den, sleep_den) = if lv == 1 { (32, 256, 8192) } else { (8, 32, 512) };
    if r % sleep_den == 0 {
        std::thread::sleep(Duration::from_micros(20 + (r >> 20) % 180));
    } else if r % yield_den == 1 || (kind == rv::KIND_SPIN && r % 4 == 0) {
        std::thread::yield_now();
    } else if r % spin_den == 2 {
        for _ in 0..(1 + (r >> 24) % 64) { std::hint::spin_loop() }
    }
}

/// harness-level preemption point
#[inline] pub fn point() { hook(H_POINT, rv::KIND_POINT) }
/// a preemption point inside the payload type's own code (`Default`, `Drop`): foreign code from the library's point of view, which may take any time -- wherever
/// the library calls it, another thread may get to run (threads that are not part of a conducted run get the random delays of the free-running lanes, if they asked for them; no effect while a thread is being torn down)
#[inline] pub fn point_in_payload_code() { if TL.try_with(|_| ()).is_ok() { hook(H_POINT, rv::KIND_POINT) } }
/// harness-level: "an operation of my script completed" -- a preemption point that also proves progress
#[inline] pub fn op_done() { hook(H_OP, rv::KIND_POINT) }
/// harness-level retry loop: somebody else has to run
#[inline] pub fn spin() {
    match TL.with(|t| t.get()) {
        Tl::Free { .. } => { std::thread::yield_now(); }
        _ => hook(H_SPIN, rv::KIND_SPIN),
    }
}

// --------------------------------------------------------------------------------------------- wake flags / wakers

pub struct WakeInner {
    flag:  AtomicBool,
    wakes: AtomicU32,
    /// generation of the waker handed out last; in strict mode only that waker wakes (the `Future` contract: only the waker of the most recent poll has to be
    /// honoured -- a stream that moved to another task is no longer woken through the old task's waker)
    gen:    AtomicU32,
    strict: AtomicBool,
    stale_wakes: AtomicU32,
    tid:   usize,
    sh:    *const Shared,      // SER
    co:    *const FreeCoord,   // FREE
}
unsafe impl Send for WakeInner {}
unsafe impl Sync for WakeInner {}

/// The harness' executor-side wake flag: `waker()`s made from it set the flag (and make a parked thread runnable)
#[derive(Clone)]
pub struct WakeFlag(pub Arc<WakeInner>);
struct WakerShell(Arc<WakeInner>, u32);
impl Wake for WakerShell {
    fn wake(self: Arc<Self>) { self.wake_by_ref() }
    fn wake_by_ref(self: &Arc<Self>) { self.0.do_wake(self.1) }
}
impl WakeInner {
    fn do_wake(&self, gen: u32) {
        if self.strict.load(SeqCst) && gen != self.gen.load(SeqCst) { self.stale_wakes.fetch_add(1, SeqCst); return }
        self.wakes.fetch_add(1, SeqCst);
        self.flag.store(true, SeqCst);
        if !self.sh.is_null() { unsafe { &*self.sh }.notify_wake(self.tid) }
        if !self.co.is_null() { unsafe { &*self.co }.activity.fetch_add(1, SeqCst); }
    }
}
impl WakeFlag {
    /// must be called from the harness thread that will park on it
    pub fn new() -> Self {
        let (sh, co, tid) = match TL.with(|t| t.get()) {
            Tl::Ser { sh, tid } => (sh, std::ptr::null(), tid),
            Tl::Free { co, tid } => (std::ptr::null(), co, tid),
            Tl::None => (std::ptr::null(), std::ptr::null(), usize::MAX),
        };
        WakeFlag(Arc::new(WakeInner { flag: AtomicBool::new(false), wakes: AtomicU32::new(0), gen: AtomicU32::new(0), strict: AtomicBool::new(false), stale_wakes: AtomicU32::new(0), tid, sh, co }))
    }
    /// a *new* waker object each call (so `will_wake()` says false against earlier ones).
    /// Every waker ever handed out is kept alive until the next run starts: the library reads its waker table without a lock
    /// (`wake_stream`), so a waker being replaced or removed may still be in use by a producer -- the behavioural consequence
    /// (a lost wake-up) is what C04 observes; the run must not die inside the monitor's own objects.
    pub fn fresh_waker(&self) -> Waker {
        let gen = self.0.gen.fetch_add(1, SeqCst) + 1;
        let w = Waker::from(Arc::new(WakerShell(self.0.clone(), gen)));
        RETAINED_WAKERS.lock().unwrap().push(w.clone());
        w
    }
    pub fn is_set(&self) -> bool { self.0.flag.load(SeqCst) }
    pub fn take(&self) -> bool { self.0.flag.swap(false, SeqCst) }
    pub fn wakes(&self) -> u32 { self.0.wakes.load(SeqCst) }
    /// from now on only the waker handed out last wakes; invocations of older ones are counted and ignored
    pub fn only_the_latest_waker_counts(&self) { self.0.strict.store(true, SeqCst) }
    pub fn stale_wakes(&self) -> u32 { self.0.stale_wakes.load(SeqCst) }
}

/// Parks the calling harness thread until its flag is set. Returns `false` if the run reached quiescence instead
/// (nobody can wake it any more) -- the caller should then wind down.
pub fn park(flag: &WakeFlag) -> bool {
    if flag.take() { return true }
    match TL.with(|t| t.get()) {
        Tl::Ser { sh, tid } => unsafe { &*sh }.park(tid, flag),
        Tl::Free { co, tid } => unsafe { &*co }.park(tid, flag),
        Tl::None => { while !flag.take() { std::thread::yield_now() } true }
    }
}

/// SER only: suspends the caller (a thread whose async setter is kept pending) until every other thread is finished,
/// parked or stalled. Returns `true` when it may go on; never returns if the run is declared stalled.
pub fn gate_wait() -> bool {
    match TL.with(|t| t.get()) {
        Tl::Ser { sh, tid } => unsafe { &*sh }.gate(tid),
        _ => true,
    }
}

/// SER: opens / closes a marked region of the calling thread's script (see `RunCfg::pause_marked_only`)
pub fn set_mark(on: bool) {
    if let Tl::Ser { sh, tid } = TL.with(|t| t.get()) { let mut st = unsafe { &*sh }.m.lock().unwrap(); st.th[tid].marked = on }
}
/// SER: a thread held by the targeted pause becomes runnable again now and is preferred for the next `favor_steps` scheduling decisions (the caller goes on
/// until its next preemption point). Returns whether somebody was paused.
pub fn resume_paused(favor_steps: u32) -> bool {
    if let Tl::Ser { sh, .. } = TL.with(|t| t.get()) {
        let mut st = unsafe { &*sh }.m.lock().unwrap();
        if let Some(p) = st.th.iter().position(|t| t.status == Status::Paused) { st.th[p].status = Status::Runnable; st.favor = Some((p, favor_steps)); return true }
    }
    false
}

// --------------------------------------------------------------------------------------------- the conductor (SER)

#[derive(Clone, Copy, PartialEq, Eq, Debug)]
enum Status { NotStarted, Runnable, Parked, Gated, Paused, Finished, Frozen }

struct Th {
    status:     Status,
    streak:     u32,
    /// consecutive harness-level retries (H_SPIN) since the last completed operation (H_OP): unproductive attempts
    h_streak:   u32,
    last_site:  u32,
    park_abort: bool,
    pause_until: u64,
    prio:       i64,
    marked:     bool,
    os_tid:     u32,
    /// steps of this thread since it last completed an operation of its script
    op_steps:   u64,
}

struct St {
    current:   usize,
    th:        Vec<Th>,
    rng:       Rng,
    step:      u64,
    switches:  u64,
    hash:      u64,
    cfg:       RunCfg,
    abort:     bool,
    outcome:   Option<Outcome>,
    quiescent: Option<Vec<usize>>,
    panics:    Vec<(usize, String)>,
    trace:     Vec<(u32, u32)>,
    // strategy state
    since_switch: u32,
    pause_count:  u32,
    pause_done:   bool,
    pause_hit:    bool,
    pct_changes:  Vec<u64>,
    prio_floor:   i64,
    done_threads: usize,
    blocked_in_a_wait: bool,
    /// a thread released by `resume_paused` runs first for that many scheduling decisions (as long as it can)
    favor:        Option<(usize, u32)>,
}

pub struct Shared {
    m:    Mutex<St>,
    cvs:  Vec<Condvar>,
    main: Condvar,
}
unsafe impl Send for Shared {}
unsafe impl Sync for Shared {}

const NONE: usize = usize::MAX;
const PAUSE_RELEASE_STREAK: u32 = 4;

impl St {
    fn runnable(&self) -> Vec<usize> {
        self.th.iter().enumerate().filter(|(_, t)| t.status == Status::Runnable).map(|(i, _)| i).collect()
    }

    /// decides who runs next (may change statuses: releases paused/gated threads, declares quiescence)
    fn pick_next(&mut self, me: usize, kind: u32) -> usize {
        // expire pauses by budget
        let step = self.step;
        for t in self.th.iter_mut() {
            if t.status == Status::Paused && step >= t.pause_until { t.status = Status::Runnable }
        }
        if let Some((p, n)) = self.favor {
            if n > 0 && self.th[p].status == Status::Runnable && !(p == me && kind == rv::KIND_SPIN) { self.favor = Some((p, n - 1)); return p }
            self.favor = None;
        }
        let cands = loop {
            let cands = self.runnable();
            let lively = cands.iter().filter(|&&i| self.th[i].streak.max(self.th[i].h_streak) < PAUSE_RELEASE_STREAK).count();
            if lively == 0 {
                // everybody else is finished, parked or spinning: a paused thread must be released
                if let Some(p) = self.th.iter().position(|t| t.status == Status::Paused) {
                    self.th[p].status = Status::Runnable;
                    return p;
                }
            }
            if cands.is_empty() {
                if self.th.iter().any(|t| t.status == Status::Gated) {
                    for t in self.th.iter_mut() { if t.status == Status::Gated { t.status = Status::Runnable } }
                    continue;
                }
                let parked: Vec<usize> = self.th.iter().enumerate().filter(|(_, t)| t.status == Status::Parked).map(|(i, _)| i).collect();
                if !parked.is_empty() {
                    // quiescence: nobody can run, nobody can wake them
                    if self.quiescent.is_none() { self.quiescent = Some(parked.clone()) } else { self.quiescent.as_mut().unwrap().extend(parked.iter()) }
                    for &p in &parked { self.th[p].status = Status::Runnable; self.th[p].park_abort = true; }
                    continue;
                }
                return NONE;
            }
            break cands;
        };
        let me_ok = me != NONE && self.th[me].status == Status::Runnable;
        let others: Vec<usize> = cands.iter().copied().filter(|&c| c != me).collect();
        let spin = kind == rv::KIND_SPIN;
        match self.cfg.strategy.clone() {
            Strategy::Random { p_pct } | Strategy::PauseAt { p_pct, .. } => {
                if me_ok && !spin && (others.is_empty() || self.rng.below(100) >= p_pct as u64) { return me }
                if others.is_empty() { return if me_ok { me } else { cands[0] } }
                *self.rng.pick(&others)
            }
            Strategy::RoundRobin { q } => {
                if me_ok && !spin && self.since_switch < q { self.since_switch += 1; return me }
                self.since_switch = 0;
                if others.is_empty() { return if me_ok { me } else { cands[0] } }
                let n = self.th.len();
                let start = if me == NONE { 0 } else { me + 1 };
                for k in 0..n { let c = (start + k) % n; if others.contains(&c) { return c } }
                others[0]
            }
            Strategy::Pct { .. } => {
                if self.pct_changes.contains(&self.step) || (spin && me_ok) {
                    if me != NONE { self.prio_floor -= 1; self.th[me].prio = self.prio_floor; }
                }
                *cands.iter().max_by_key(|&&c| self.th[c].prio).unwrap()
            }
        }
    }

    fn all_runnable_stalled(&self) -> bool {
        let k = self.cfg.stall_k;
        let mut any = false;
        for t in &self.th {
            match t.status {
                Status::Runnable => { any = true; if t.streak.max(t.h_streak) < k { return false } }
                Status::Paused | Status::NotStarted => return false,
                _ => {}
            }
        }
        any
    }
}

impl Shared {
    /// The run was aborted (stall / step cap): this thread must never execute library code again. It cannot unwind (it may sit in the
    /// middle of a library operation, holding a spin lock that nothing would release) -- so the OS thread simply ends here, without
    /// running any destructor: everything it owns is leaked together with the run's channel.
    fn freeze(&self, mut st: std::sync::MutexGuard<'_, St>, tid: usize) -> ! {
        st.th[tid].status = Status::Frozen;
        st.done_threads += 1;
        self.main.notify_all();
        drop(st);
        LEAKED_THREADS.fetch_add(1, SeqCst);
        exit_this_thread()
    }

    fn hand_over<'a>(&'a self, mut st: std::sync::MutexGuard<'a, St>, me: usize, next: usize) -> std::sync::MutexGuard<'a, St> {
        if next == NONE {
            // nobody can run: the run is over (everybody finished)
            st.current = NONE;
            self.main.notify_all();
            return st;
        }
        if next != me {
            st.switches += 1;
            st.hash = mix(st.hash, ((st.step & 0xFFFF_FFFF) << 8) ^ next as u64);
            st.current = next;
            self.cvs[next].notify_one();
        }
        st
    }

    fn wait_turn<'a>(&'a self, mut st: std::sync::MutexGuard<'a, St>, me: usize) -> std::sync::MutexGuard<'a, St> {
        while st.current != me && !st.abort {
            st = self.cvs[me].wait(st).unwrap();
        }
        if st.abort { self.freeze(st, me) }
        st
    }

    fn do_abort(&self, st: &mut St, outcome: Outcome) {
        if st.outcome.is_none() { st.outcome = Some(outcome) }
        st.abort = true;
        for cv in &self.cvs { cv.notify_all() }
        self.main.notify_all();
    }

    fn on_site(&self, tid: usize, site: u32, kind: u32) {
        let mut st = self.m.lock().unwrap();
        if st.abort { self.freeze(st, tid) }
        debug_assert_eq!(st.current, tid, "a thread ran without holding the token");
        st.step += 1;
        if st.cfg.trace && st.trace.len() < 200_000 { st.trace.push((tid as u32, site)) }
        {
            let lp = is_loop_site(site);
            let t = &mut st.th[tid];
            if kind == rv::KIND_SPIN { t.streak += 1 } else if !lp { t.streak = 0 }
            if site == H_SPIN { t.h_streak += 1 }
            if site == H_OP { t.op_steps = 0 } else { t.op_steps += 1 }
            t.last_site = site;
        }
        // somebody completed an operation: whatever the others are waiting for at harness level may have become true
        if site == H_OP { for t in st.th.iter_mut() { t.h_streak = 0 } }
        if st.step > st.cfg.max_steps {
            let lone = st.cfg.lone_thread_step_cap_is_stall && st.th.iter().enumerate().all(|(i, t)| if i == tid { t.status == Status::Runnable } else { t.status == Status::Finished });
            let b = st.cfg.per_op_step_bound;
            let all_stuck = b > 0 && st.th.iter().all(|t| t.status != Status::Runnable || t.op_steps >= b) && st.th.iter().all(|t| !matches!(t.status, Status::Paused | Status::NotStarted));
            let outcome = if lone { Outcome::Stall { spinners: vec![(tid, site)], gated: Vec::new() } }
                else if all_stuck { Outcome::Stall { spinners: st.th.iter().enumerate().filter(|(_, t)| t.status == Status::Runnable).map(|(i, t)| (i, t.last_site)).collect(), gated: st.th.iter().enumerate().filter(|(_, t)| t.status == Status::Gated).map(|(i, _)| i).collect() } }
                else { Outcome::StepCap };
            self.do_abort(&mut st, outcome);
            self.freeze(st, tid);
        }
        // targeted pause
        if let Strategy::PauseAt { tid: ptid, site: psite, nth, budget, .. } = st.cfg.strategy.clone() {
            if !st.pause_done && ptid == tid && psite == site && (!st.cfg.pause_marked_only || st.th[tid].marked) {
                st.pause_count += 1;
                if st.pause_count == nth {
                    st.pause_done = true;
                    st.pause_hit = true;
                    st.th[tid].status = Status::Paused;
                    st.th[tid].pause_until = st.step + budget;
                }
            }
        }
        // stall verdict
        if kind == rv::KIND_SPIN && st.cfg.stall_k > 0 && st.th[tid].streak.max(st.th[tid].h_streak) >= st.cfg.stall_k && st.all_runnable_stalled() {
            // a thread stalled at harness level only (unproductive attempts, no library spin loop) is reported at H_SPIN
            let k = st.cfg.stall_k;
            let spinners = st.th.iter().enumerate().filter(|(_, t)| t.status == Status::Runnable).map(|(i, t)| (i, if t.streak >= k { t.last_site } else { H_SPIN })).collect();
            let gated = st.th.iter().enumerate().filter(|(_, t)| t.status == Status::Gated).map(|(i, _)| i).collect();
            self.do_abort(&mut st, Outcome::Stall { spinners, gated });
            self.freeze(st, tid);
        }
        let next = st.pick_next(tid, kind);
        if next != tid {
            let st2 = self.hand_over(st, tid, next);
            let _st3 = self.wait_turn(st2, tid);
        }
    }

    fn notify_wake(&self, tid: usize) {
        let mut st = self.m.lock().unwrap();
        if tid < st.th.len() && st.th[tid].status == Status::Parked {
            st.th[tid].status = Status::Runnable;
        }
    }

    fn park(&self, tid: usize, flag: &WakeFlag) -> bool {
        let mut st = self.m.lock().unwrap();
        if st.abort { self.freeze(st, tid) }
        if flag.take() { return true }
        st.step += 1;
        st.th[tid].status = Status::Parked;
        st.th[tid].streak = 0; for t in st.th.iter_mut() { t.h_streak = 0 }
        let next = st.pick_next(tid, rv::KIND_POINT);
        if next == tid {
            // quiescence was declared and I was elected to wind down first
            let aborted = std::mem::replace(&mut st.th[tid].park_abort, false);
            st.th[tid].status = Status::Runnable;
            drop(st);
            return if aborted { false } else { flag.take() || true };
        }
        let st = self.hand_over(st, tid, next);
        let mut st = self.wait_turn(st, tid);
        st.th[tid].status = Status::Runnable;
        let aborted = std::mem::replace(&mut st.th[tid].park_abort, false);
        drop(st);
        if aborted { false } else { flag.take(); true }
    }

    fn gate(&self, tid: usize) -> bool {
        let mut st = self.m.lock().unwrap();
        if st.abort { self.freeze(st, tid) }
        st.step += 1;
        st.th[tid].status = Status::Gated;
        st.th[tid].streak = 0; for t in st.th.iter_mut() { t.h_streak = 0 }
        let next = st.pick_next(tid, rv::KIND_POINT);
        if next == tid { st.th[tid].status = Status::Runnable; return true }
        let st = self.hand_over(st, tid, next);
        let mut st = self.wait_turn(st, tid);
        st.th[tid].status = Status::Runnable;
        true
    }

    fn finish(&self, tid: usize, panic: Option<String>) {
        let mut st = self.m.lock().unwrap();
        if let Some(p) = panic { st.panics.push((tid, p)) }
        if st.abort { st.th[tid].status = Status::Finished; st.done_threads += 1; self.main.notify_all(); return }
        st.th[tid].status = Status::Finished;
        st.done_threads += 1;
        for t in st.th.iter_mut() { t.h_streak = 0 }
        let next = st.pick_next(tid, rv::KIND_POINT);
        let _st = self.hand_over(st, tid, next);
        self.main.notify_all();
    }
}

pub type Body = Box<dyn FnOnce() + Send + 'static>;

/// Runs `bodies` (one per thread) under the given configuration
pub fn run(cfg: &RunCfg, bodies: Vec<Body>) -> Report {
    install_hooks();
    NOTES.lock().unwrap().clear();
    RETAINED_WAKERS.lock().unwrap().clear();
    match cfg.lane {
        Lane::Ser => run_ser(cfg, bodies),
        Lane::Free => run_free(cfg, bodies),
    }
}

fn panic_msg(e: Box<dyn std::any::Any + Send>) -> String {
    if let Some(s) = e.downcast_ref::<&str>() { s.to_string() }
    else if let Some(s) = e.downcast_ref::<String>() { s.clone() }
    else { "<non-string panic>".into() }
}

fn run_ser(cfg: &RunCfg, bodies: Vec<Body>) -> Report {
    let n = bodies.len();
    let mut rng = Rng::new(cfg.seed);
    let mut th: Vec<Th> = (0..n).map(|_| Th { status: Status::NotStarted, streak: 0, h_streak: 0, last_site: u32::MAX, park_abort: false, pause_until: 0, prio: 0, marked: false, os_tid: 0, op_steps: 0 }).collect();
    let mut pct_changes = Vec::new();
    if let Strategy::Pct { depth, est_steps } = cfg.strategy {
        let mut prios: Vec<i64> = (0..n as i64).map(|i| i + depth as i64).collect();
        for i in (1..n).rev() { let j = rng.below(i as u64 + 1) as usize; prios.swap(i, j) }
        for (t, p) in th.iter_mut().zip(prios) { t.prio = p }
        for _ in 1..depth { pct_changes.push(1 + rng.below(est_steps.max(2) as u64)) }
    }
    let sh = Arc::new(Shared {
        m: Mutex::new(St {
            current: NONE, th, rng, step: 0, switches: 0, hash: cfg.seed, cfg: cfg.clone(), abort: false, outcome: None, quiescent: None,
            panics: Vec::new(), trace: Vec::new(), since_switch: 0, pause_count: 0, pause_done: false, pause_hit: false, favor: None, blocked_in_a_wait: false,
            pct_changes, prio_floor: 0, done_threads: 0,
        }),
        cvs: (0..n).map(|_| Condvar::new()).collect(),
        main: Condvar::new(),
    });
    let started = Arc::new(AtomicU32::new(0));
    for (tid, body) in bodies.into_iter().enumerate() {
        let sh = sh.clone();
        let started = started.clone();
        std::thread::Builder::new().stack_size(512 * 1024).spawn(move || {
            let shp: *const Shared = &*sh;
            TL.with(|t| t.set(Tl::Ser { sh: shp, tid }));
            {
                let mut st = sh.m.lock().unwrap();
                st.th[tid].status = Status::Runnable;
                st.th[tid].os_tid = os_tid();
                started.fetch_add(1, SeqCst);
                sh.main.notify_all();
                // wait for the token
                let _st = sh.wait_turn(st, tid);
            }
            let r = catch_unwind(AssertUnwindSafe(body));
            sh.finish(tid, r.err().map(panic_msg));
            TL.with(|t| t.set(Tl::None));
        }).expect("spawn");
    }
    // wait until everybody registered, then hand the token to the first thread
    let mut st = sh.m.lock().unwrap();
    while started.load(SeqCst) < n as u32 { st = sh.main.wait(st).unwrap(); }
    let first = st.pick_next(NONE, rv::KIND_POINT);
    if first != NONE { st.current = first; sh.cvs[first].notify_one(); }
    // wait for the end
    let deadline = Instant::now() + cfg.watchdog;
    let mut watchdog = false;
    let (mut last_step, mut last_change, mut asleep_since) = (st.step, Instant::now(), None::<Instant>);
    while st.done_threads < n {
        let (g, to) = sh.main.wait_timeout(st, Duration::from_millis(200)).unwrap();
        st = g;
        if to.timed_out() && Instant::now() > deadline { watchdog = true; break }
        if cfg.blocked_token_holder_is_stall && !st.abort {
            if st.step != last_step { last_step = st.step; last_change = Instant::now(); asleep_since = None }
            else if last_change.elapsed() > Duration::from_secs(2) && st.current != NONE {
                let who = st.current;
                match os_thread_state(st.th[who].os_tid) {
                    Some('S') => match asleep_since {
                        None => asleep_since = Some(Instant::now()),
                        Some(t) if t.elapsed() > Duration::from_millis(500) => {
                            let site = st.th[who].last_site;
                            let gated = st.th.iter().enumerate().filter(|(_, t)| t.status == Status::Gated).map(|(i, _)| i).collect();
                            sh.do_abort(&mut st, Outcome::Stall { spinners: vec![(who, site)], gated });
                            st.blocked_in_a_wait = true;
                            LEAKED_THREADS.fetch_add(1, SeqCst);      // (the sleeper itself: it will never come back)
                            eprintln!("rmv: the token holder t{who} sleeps in a blocking wait (last site {}): stall", site_name(site));
                            break;
                        }
                        _ => {}
                    },
                    _ => asleep_since = None,
                }
            }
        }
    }
    if watchdog {
        // a thread runs without reaching a hook site (or the machine is overloaded): inconclusive; leak everything
        let who = st.current;
        let site = if who != NONE { st.th[who].last_site } else { u32::MAX };
        eprintln!("rmv: SER watchdog fired (current thread t{who}, last site {})", site_name(site));
        st.abort = true;
        if st.outcome.is_none() { st.outcome = Some(Outcome::Watchdog) }
    }
    let outcome = match (&st.outcome, &st.quiescent) {
        (Some(o), _) => o.clone(),
        (None, Some(q)) => Outcome::Quiescent { parked: q.clone() },
        (None, None) => Outcome::Done,
    };
    let frozen = st.th.iter().filter(|t| t.status == Status::Frozen).count();
    Report {
        outcome, steps: st.step, switches: st.switches, sched_hash: st.hash, panics: std::mem::take(&mut st.panics),
        trace: std::mem::take(&mut st.trace), pause_hit: st.pause_hit, frozen,
    }
}

// --------------------------------------------------------------------------------------------- FREE lane

pub struct FreeCoord {
    activity: AtomicU64,
    abort:    AtomicBool,
    states:   Vec<AtomicU8>,     // 0 running, 1 parked, 2 finished
    flags:    Mutex<Vec<Option<WakeFlag>>>,
}
unsafe impl Send for FreeCoord {}
unsafe impl Sync for FreeCoord {}

impl FreeCoord {
    fn park(&self, tid: usize, flag: &WakeFlag) -> bool {
        { self.flags.lock().unwrap()[tid] = Some(flag.clone()); }
        loop {
            if flag.take() { return true }
            if self.abort.load(SeqCst) { return false }
            self.states[tid].store(1, SeqCst);
            self.activity.fetch_add(1, SeqCst);
            let mut i = 0u32;
            while !flag.is_set() && !self.abort.load(SeqCst) {
                i += 1;
                if i < 200 { std::hint::spin_loop() } else if i < 2000 { std::thread::yield_now() } else { std::thread::sleep(Duration::from_micros(50)) }
            }
            self.states[tid].store(0, SeqCst);
            self.activity.fetch_add(1, SeqCst);
        }
    }
    fn all_stuck(&self) -> bool {
        let flags = self.flags.lock().unwrap();
        let mut any_parked = false;
        for (i, s) in self.states.iter().enumerate() {
            match s.load(SeqCst) {
                2 => {}
                1 => { any_parked = true; if flags[i].as_ref().map(|f| f.is_set()).unwrap_or(true) { return false } }
                _ => return false,
            }
        }
        any_parked
    }
}

fn run_free(cfg: &RunCfg, bodies: Vec<Body>) -> Report {
    let n = bodies.len();
    let co = Arc::new(FreeCoord {
        activity: AtomicU64::new(0), abort: AtomicBool::new(false),
        states: (0..n).map(|_| AtomicU8::new(0)).collect(), flags: Mutex::new(vec![None; n]),
    });
    let go = Arc::new(AtomicBool::new(false));
    let panics = Arc::new(Mutex::new(Vec::new()));
    let mut handles = Vec::new();
    for (tid, body) in bodies.into_iter().enumerate() {
        let co = co.clone();
        let go = go.clone();
        let panics = panics.clone();
        let seed = mix(cfg.seed, tid as u64 + 1) | 1;
        let lv = cfg.chaos;
        handles.push(std::thread::Builder::new().stack_size(512 * 1024).spawn(move || {
            let cop: *const FreeCoord = &*co;
            TL.with(|t| t.set(Tl::Free { co: cop, tid }));
            CHAOS.with(|c| c.set(seed));
            CHAOS_LV.with(|c| c.set(lv));
            while !go.load(SeqCst) { std::hint::spin_loop() }
            let r = catch_unwind(AssertUnwindSafe(body));
            if let Err(e) = r { panics.lock().unwrap().push((tid, panic_msg(e))) }
            co.states[tid].store(2, SeqCst);
            co.activity.fetch_add(1, SeqCst);
            TL.with(|t| t.set(Tl::None));
        }).expect("spawn"));
    }
    go.store(true, SeqCst);
    let deadline = Instant::now() + cfg.watchdog;
    let mut outcome = Outcome::Done;
    let mut quiescent: Option<Vec<usize>> = None;
    loop {
        if co.states.iter().all(|s| s.load(SeqCst) == 2) { break }
        let a1 = co.activity.load(SeqCst);
        if co.all_stuck() {
            std::thread::sleep(Duration::from_micros(200));
            if co.all_stuck() && co.activity.load(SeqCst) == a1 {
                let parked: Vec<usize> = co.states.iter().enumerate().filter(|(_, s)| s.load(SeqCst) == 1).map(|(i, _)| i).collect();
                quiescent = Some(parked);
                co.abort.store(true, SeqCst);
            }
        }
        if Instant::now() > deadline { outcome = Outcome::Watchdog; break }
        std::thread::sleep(Duration::from_micros(100));
    }
    if outcome != Outcome::Watchdog {
        for h in handles { let _ = h.join(); }
        if let Some(q) = quiescent { outcome = Outcome::Quiescent { parked: q } }
    } else {
        eprintln!("rmv: FREE watchdog fired after {:?} -- inconclusive", cfg.watchdog);
        co.abort.store(true, SeqCst);
        std::mem::forget(handles);
    }
    let panics = std::mem::take(&mut *panics.lock().unwrap());
    Report { outcome, steps: 0, switches: 0, sched_hash: cfg.seed, panics, trace: Vec::new(), pause_hit: false, frozen: 0 }
}

pub fn site_hits_json() -> J {
    let mut o = J::obj();
    for (i, name) in rv::SITES.iter().enumerate() {
        let v = SITE_HITS[i].load(Relaxed);
        if v > 0 { o.set(*name, J::i(v as i64)); }
    }
    o
}

/// development aid: prints the (step, thread, site) trace of a run recorded with `RunCfg::trace`
pub fn dump_trace(rep: &Report) {
    eprintln!("--- trace ({} steps): step:tid@site", rep.trace.len());
    let mut line = String::new();
    let skip = rep.trace.len().saturating_sub(1500);
    for (i, (t, s)) in rep.trace.iter().enumerate().skip(skip) { line.push_str(&format!("{}:t{}@{} ", i, t, site_name(*s))); if line.len() > 150 { eprintln!("{line}"); line.clear() } }
    eprintln!("{line}");
    eprintln!("--- outcome: {}", rep.outcome_json().to_string());
}
