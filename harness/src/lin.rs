//! Wing-Gong-Lowe linearizability checking with memoisation on (linearised set, model state), plus the small sequential
//! models the properties are stated against (bounded FIFO with held/reserved slots, bounded LIFO, id pool).

use std::collections::HashSet;
use std::hash::Hash;

pub trait Model: Clone + Hash + Eq {
    type Op: Clone + std::fmt::Debug;
    /// the state after `op` took effect, or None if `op` (with the result it reported) cannot take effect in this state
    fn apply(&self, op: &Self::Op) -> Option<Self>;
}

#[derive(Clone, Debug)]
pub struct Ev<O> {
    pub thread: u32,
    pub call:   u64,
    /// u64::MAX = the operation never returned (it may or may not have taken effect)
    pub ret:    u64,
    pub op:     O,
}

#[derive(Debug, PartialEq, Eq)]
pub enum Verdict {
    /// a linearisation exists; `states` = (set, model) pairs visited
    Linearizable { states: u64 },
    /// no linearisation exists; `longest` = the longest linearisable prefix found (indices into the history), for the witness
    NotLinearizable { states: u64, longest: Vec<usize> },
    /// search budget exhausted -- inconclusive
    Budget { states: u64 },
}

/// `hist` may be in any order; at most 128 operations
pub fn check<M: Model>(init: M, hist: &[Ev<M::Op>], budget: u64) -> Verdict {
    let n = hist.len();
    if n > 128 { return Verdict::Budget { states: 0 } }   // too long for the bit-set representation: inconclusive, never a verdict
    let full: u128 = if n == 128 { u128::MAX } else { (1u128 << n) - 1 };
    let must: u128 = hist.iter().enumerate().filter(|(_, e)| e.ret != u64::MAX).fold(0u128, |m, (i, _)| m | (1u128 << i));
    let mut seen: HashSet<(u128, M)> = HashSet::new();
    let mut stack: Vec<(u128, M, Vec<usize>)> = vec![(0, init, Vec::new())];
    let mut states = 0u64;
    let mut longest: Vec<usize> = Vec::new();
    while let Some((mask, model, path)) = stack.pop() {
        if mask & must == must { return Verdict::Linearizable { states } }
        states += 1;
        if states > budget { return Verdict::Budget { states } }
        if path.len() > longest.len() { longest = path.clone() }
        // minimal operations: not linearised, and no other un-linearised operation returned before their call
        let mut min_ret = u64::MAX;
        for (i, e) in hist.iter().enumerate() { if mask & (1u128 << i) == 0 && e.ret < min_ret { min_ret = e.ret } }
        for (i, e) in hist.iter().enumerate() {
            if mask & (1u128 << i) != 0 || e.call > min_ret { continue }
            if let Some(m2) = model.apply(&e.op) {
                let k = (mask | (1u128 << i), m2);
                if !seen.contains(&k) {
                    seen.insert(k.clone());
                    let mut p2 = path.clone(); p2.push(i);
                    stack.push((k.0, k.1, p2));
                }
            }
        }
        let _ = full;
    }
    Verdict::NotLinearizable { states, longest }
}

/// for each operation: how many *other* operations selected by `counts` overlap its interval
pub fn overlaps<O>(hist: &[Ev<O>], counts: impl Fn(&O) -> bool) -> Vec<u32> {
    hist.iter().enumerate().map(|(i, e)| {
        hist.iter().enumerate().filter(|(j, f)| *j != i && counts(&f.op) && f.call < e.ret && e.call < f.ret).count() as u32
    }).collect()
}

// --------------------------------------------------------------------------------------------- bounded FIFO

#[derive(Clone, Debug, PartialEq, Eq, Hash)]
pub enum QOp {
    SendOk(u64),
    /// rejected as full; `slack` = operations in progress during the call that may have been occupying a slot
    SendFull { slack: u32 },
    RecvSome(u64),
    /// `excusable`: another thread's empty-handed poll was in progress during this one
    RecvNone { excusable: bool },
    /// a zero-copy handle was released
    Release(u64),
    /// a slot was reserved (occupies capacity until sent or cancelled)
    Reserve,
    ReserveNone { slack: u32 },
    SendReserved(u64),
    CancelReserved,
    /// reported length
    Len(u32),
}

#[derive(Clone, Debug, PartialEq, Eq, Hash)]
pub struct Fifo {
    pub q:        Vec<u64>,
    pub held:     u32,
    pub reserved: u32,
    pub cap:      u32,
    /// received payloads keep occupying their slot until released (zero-copy kinds)
    pub holds:    bool,
    /// known-finding analysis only: an `excusable` empty answer may take effect on a non-empty queue
    pub relaxed_empty: bool,
}
impl Fifo {
    pub fn new(cap: u32, holds: bool) -> Self { Fifo { q: Vec::new(), held: 0, reserved: 0, cap, holds, relaxed_empty: false } }
    fn occ(&self) -> u32 { self.q.len() as u32 + self.held + self.reserved }
}
impl Model for Fifo {
    type Op = QOp;
    fn apply(&self, op: &QOp) -> Option<Fifo> {
        match op {
            QOp::SendOk(id) => { if self.occ() < self.cap { let mut s = self.clone(); s.q.push(*id); Some(s) } else { None } }
            QOp::SendFull { slack } | QOp::ReserveNone { slack } => { if self.occ() + slack >= self.cap { Some(self.clone()) } else { None } }
            QOp::RecvSome(id) => {
                if self.q.first() == Some(id) { let mut s = self.clone(); s.q.remove(0); if s.holds { s.held += 1 } Some(s) } else { None }
            }
            QOp::RecvNone { excusable } => { if self.q.is_empty() || (self.relaxed_empty && *excusable) { Some(self.clone()) } else { None } }
            QOp::Release(_) => { if self.held > 0 { let mut s = self.clone(); s.held -= 1; Some(s) } else { None } }
            QOp::Reserve => { if self.occ() < self.cap { let mut s = self.clone(); s.reserved += 1; Some(s) } else { None } }
            QOp::SendReserved(id) => { if self.reserved > 0 { let mut s = self.clone(); s.reserved -= 1; s.q.push(*id); Some(s) } else { None } }
            QOp::CancelReserved => { if self.reserved > 0 { let mut s = self.clone(); s.reserved -= 1; Some(s) } else { None } }
            QOp::Len(l) => { if self.q.len() as u32 == *l { Some(self.clone()) } else { None } }
        }
    }
}

// --------------------------------------------------------------------------------------------- bounded LIFO

#[derive(Clone, Debug, PartialEq, Eq, Hash)]
pub enum SOp { PushOk(u64), PushFull, PopSome(u64), PopNone }

#[derive(Clone, Debug, PartialEq, Eq, Hash)]
pub struct Lifo { pub s: Vec<u64>, pub cap: u32 }
impl Model for Lifo {
    type Op = SOp;
    fn apply(&self, op: &SOp) -> Option<Lifo> {
        match op {
            SOp::PushOk(id) => { if (self.s.len() as u32) < self.cap { let mut s = self.clone(); s.s.push(*id); Some(s) } else { None } }
            SOp::PushFull => { if self.s.len() as u32 >= self.cap { Some(self.clone()) } else { None } }
            SOp::PopSome(id) => { if self.s.last() == Some(id) { let mut s = self.clone(); s.s.pop(); Some(s) } else { None } }
            SOp::PopNone => { if self.s.is_empty() { Some(self.clone()) } else { None } }
        }
    }
}

// --------------------------------------------------------------------------------------------- id pool

#[derive(Clone, Debug, PartialEq, Eq, Hash)]
pub enum POp { Alloc(u32), AllocNone { slack: u32 }, Dealloc(u32) }

/// bit i set = slot i is outstanding
#[derive(Clone, Debug, PartialEq, Eq, Hash)]
pub struct Pool { pub out: u64, pub cap: u32 }
impl Model for Pool {
    type Op = POp;
    fn apply(&self, op: &POp) -> Option<Pool> {
        match op {
            POp::Alloc(id) => { if *id < self.cap && self.out & (1 << id) == 0 { Some(Pool { out: self.out | (1 << id), cap: self.cap }) } else { None } }
            POp::AllocNone { slack } => { if self.out.count_ones() + slack >= self.cap { Some(self.clone()) } else { None } }
            POp::Dealloc(id) => { if self.out & (1 << id) != 0 { Some(Pool { out: self.out & !(1 << id), cap: self.cap }) } else { None } }
        }
    }
}

pub fn ev_json<O: std::fmt::Debug>(e: &Ev<O>) -> crate::json::J {
    crate::json::J::s(format!("t{} [{}..{}] {:?}", e.thread, e.call, if e.ret == u64::MAX { "open".to_string() } else { e.ret.to_string() }, e.op))
}
