//! C07 -- cancel / end terminates exactly the targeted streams, even parked ones.
//!
//! Targeted streams are driven by the minimal executor of C04 (poll; park on Pending until woken), so "parked and never told"
//! is an exact quiescent state; non-targeted streams poll in a loop (their deliveries must not depend on wake-ups, which is
//! C04's subject). A requester thread issues `cancel_all_streams()` or `gracefully_end_stream(id, ZERO)` (driven on a
//! paused-time current-thread tokio runtime inside that thread, so its 1 ms sleeps take no wall-clock time) at a
//! scheduler-chosen moment; producers send before and after.
//! Replacement (some `gracefully_end_stream` runs on a channel that is at MAX_STREAMS): as soon as a targeted stream has ended and been dropped, its
//! thread creates a new stream -- which gets the recycled id while the request may still be waiting for that id to become vacant -- and polls it: the
//! replacement was never told to end, so it must never answer end-of-stream and (Multi) must receive what is sent during its lifetime.

use crate::chan::{self, Kind};
use crate::common::{draw_strategy, file_violation, run_loop, Acc, Args};
use crate::drive::{driven_consumer_body, entries_for, polling_consumer_body, producer_body, stamp, ConsLog, Entry, Hold, OnExit, ProdLog};
use crate::json::J;
use crate::sched::{self, mix, Body, Lane, Outcome, Rng, RunCfg};
use reactive_mutiny::verif as rv;
use std::collections::HashSet;
use std::sync::{atomic::{AtomicU32, AtomicU64, Ordering::SeqCst}, Arc};
use std::time::Duration;

#[derive(Clone, Debug, PartialEq, Eq)]
pub enum Req { CancelAll, End(Vec<usize>),
    /// `gracefully_end_all_streams(unbounded)` at channel level (C06: returns only after everything accepted before was yielded and every stream ended)
    EndAll }

#[derive(Clone, Debug)]
pub struct Cfg { pub kind: Kind, pub n: usize, pub m: usize, pub streams: usize, pub req: Req, pub entries: Vec<Entry>, pub per_prod: u32, pub prefill: u32, pub delay: u32, pub fresh_wakers: bool,
    /// streams created first (they get the lowest ids) and dropped -- neither cancelled nor ended -- before the run starts
    pub predropped: usize,
    /// a targeted stream's thread creates a replacement stream (recycled id) right after dropping the ended one
    pub replace: bool,
    /// (request = end_all only) `cancel_all_streams()` is issued right before `gracefully_end_all_streams()`: cancelled streams still drain what is buffered, the
    /// graceful end must still wait for everything accepted before
    pub cancel_first: bool,
    /// the consumers' tasks fail once they are done with their streams: every stream is dropped while its thread unwinds from a panic (its id must become reusable all the same)
    pub unwind_drops: bool }
impl Cfg {
    pub fn targeted(&self, i: usize) -> bool { match &self.req { Req::CancelAll | Req::EndAll => true, Req::End(v) => v.contains(&i) } }
    pub fn json(&self) -> J {
        J::obj().with("kind", J::s(self.kind.name())).with("N", J::i(self.n as i64)).with("M", J::i(self.m as i64)).with("streams", J::i(self.streams as i64))
            .with("request", J::s(format!("{:?}", self.req))).with("producers", J::Arr(self.entries.iter().map(|e| J::s(e.name())).collect()))
            .with("events_per_producer", J::i(self.per_prod as i64)).with("prefill", J::i(self.prefill as i64)).with("requester_delay_steps", J::i(self.delay as i64)).with("fresh_wakers", J::Bool(self.fresh_wakers)).with("cancel_all_streams_right_before_the_request", J::Bool(self.cancel_first)).with("streams_created_first_and_dropped_uncancelled_before_the_run", J::i(self.predropped as i64)).with("ended_streams_replaced_at_once_by_new_ones", J::Bool(self.replace)).with("streams_dropped_while_their_thread_unwinds_from_a_panic", J::Bool(self.unwind_drops))
    }
}

pub const PAUSE_SITES: &[u32] = &[rv::MS_AFTER_CONSUME_NONE, rv::MS_AFTER_KEEP_RUNNING, rv::MS_BEFORE_PENDING, rv::SM_REGISTER_BEFORE_COMPARE, rv::SM_REGISTER_BEFORE_SELF_WAKE,
    rv::SM_CANCEL_AFTER_FLAG, rv::SM_CANCEL_ALL_EACH, rv::SM_WAKE_BEFORE_READ, rv::SM_CREATE_AFTER_FLAG, rv::AM_CONSUME_AFTER_READ, rv::SM_DROPPED_AFTER_WAKER, rv::SM_DROPPED_AFTER_COUNTERS];

pub fn draw_cfg(rng: &mut Rng, only: Option<&str>, end_all: bool) -> Cfg {
    let kinds: Vec<Kind> = chan::ALL_KINDS.iter().copied().filter(|k| only.map(|o| k.name() == o).unwrap_or(true)).filter(|k| !(cfg!(miri) && *k == Kind::MultiMmap)).collect();   // (Miri cannot interpret file-backed mmap)
    let kind = *rng.pick(&kinds);
    let cfgs: Vec<(usize, usize)> = chan::cfgs_for(kind, false).into_iter().filter(|c| c.1 <= 4 && (c.0 == 0 || c.0 >= 4) && c.0 <= 16).collect();
    let (n, m) = *rng.pick(&cfgs);
    let streams = 1 + rng.below(m.min(4) as u64) as usize;
    let req = if end_all { Req::EndAll } else if rng.chance(1, 2) { Req::CancelAll } else {
        let mut v: Vec<usize> = (0..streams).filter(|_| rng.chance(1, 2)).collect();
        if v.is_empty() { v.push(rng.below(streams as u64) as usize) }
        Req::End(v)
    };
    let mut nprod = rng.below(3) as usize;
    let mut per_prod = 1 + rng.below(3) as u32;
    let mut prefill = rng.below(3) as u32;
    if n > 0 { while (prefill + per_prod * nprod as u32) as usize > n { if prefill > 0 { prefill -= 1 } else if per_prod > 1 { per_prod -= 1 } else { nprod -= 1 } } }
    let mut es = entries_for(kind); es.retain(|e| *e != Entry::SendAsyncSuspended);
    let entries: Vec<Entry> = (0..nprod).map(|_| *rng.pick(&es)).collect();
    let predropped = if kind != Kind::MultiMmap && streams < m && rng.chance(1, 3) { 1 + rng.below((m - streams) as u64) as usize } else { 0 };
    let replace = matches!(req, Req::End(_)) && streams == m && rng.chance(1, 2);
    Cfg { kind, n, m, streams, req, entries, per_prod, prefill, delay: rng.below(40) as u32, fresh_wakers: rng.chance(1, 3), predropped, replace, cancel_first: end_all && rng.chance(1, 3), unwind_drops: !cfg!(miri) && rng.chance(1, 5) }
}

pub fn block_on_paused<F: std::future::Future>(f: F) -> F::Output {
    let rt = tokio::runtime::Builder::new_current_thread().enable_time().start_paused(true).build().expect("tokio runtime");
    rt.block_on(f)
}

/// like [block_on_paused], but every poll of `f` that answers Pending counts as an unproductive attempt of the calling harness thread (`sched::spin`) and moves the
/// virtual clock on by a millisecond: a request that keeps waiting while nobody else can do anything for it ends in the conductor's stall verdict (no clock involved)
pub fn block_on_paused_counting_attempts<F: std::future::Future>(f: F) -> F::Output {
    let rt = tokio::runtime::Builder::new_current_thread().enable_time().start_paused(true).build().expect("tokio runtime");
    rt.block_on(async move {
        let mut f = std::pin::pin!(f);
        loop {
            if let std::task::Poll::Ready(r) = futures::poll!(f.as_mut()) { break r }
            sched::spin();
            tokio::time::advance(Duration::from_millis(1)).await;
        }
    })
}

pub fn one_run(cfg: &Cfg, rc: &RunCfg, acc: &mut Acc) -> (Option<J>, u64, bool) {
    let ch = chan::make(cfg.kind, cfg.n, cfg.m, false).expect("instantiation");
    let early: Vec<_> = (0..cfg.predropped).map(|_| ch.create_stream()).collect();
    let mut strms: Vec<_> = (0..cfg.streams).map(|_| ch.create_stream()).collect();
    drop(early);
    if cfg.predropped > 0 { acc.count("runs_with_lower_stream_ids_dropped_uncancelled_beforehand", 1) }
    let stream_ids: Vec<u32> = strms.iter().map(|s| s.id()).collect();
    if rc.lane == Lane::Free { for (i, s) in strms.iter_mut().enumerate() { if cfg.targeted(i) { crate::drive::preregister(s) } else { crate::drive::preregister_noop(s) } } }
    let mut accepted_prefill: Vec<u64> = Vec::new();
    for i in 0..cfg.prefill as u64 { if crate::drive::send_via(&*ch, Entry::Send, 0x800 + i) == chan::SendRes::Ok { accepted_prefill.push(0x800 + i) } }
    let clogs: Vec<Arc<ConsLog>> = (0..cfg.streams).map(|_| Arc::new(ConsLog::default())).collect();
    if cfg.unwind_drops { for l in &clogs { l.drop_while_unwinding.store(true, SeqCst) } acc.count("runs_in_which_streams_are_dropped_while_their_thread_unwinds_from_a_panic", 1) }
    let plogs: Vec<Arc<ProdLog>> = cfg.entries.iter().map(|_| Arc::new(ProdLog::default())).collect();
    let done = Arc::new(AtomicU32::new(0));
    let n_to_wait = cfg.entries.len() as u32 + 1;                 // producers + the requester
    let req_returned = Arc::new(AtomicU64::new(0));
    let req_called = Arc::new(AtomicU64::new(0));
    let end_answers = Arc::new(std::sync::Mutex::new(Vec::<(usize, bool)>::new()));
    let end_all_snapshot = Arc::new(std::sync::Mutex::new(None::<(u32, bool)>));
    let mut bodies: Vec<Body> = Vec::new();
    let prod_done = Arc::new(AtomicU32::new(0));
    let nprod = cfg.entries.len() as u32;
    // per targeted stream: the log of its replacement and (creation returned, dropped) stamps
    let rlogs: Vec<Arc<ConsLog>> = (0..cfg.streams).map(|_| Arc::new(ConsLog::default())).collect();
    let rborn: Vec<Arc<AtomicU64>> = (0..cfg.streams).map(|_| Arc::new(AtomicU64::new(0))).collect();
    // (call, return) of the creation of each replacement: like a drop, a creation rewrites the live-listener list in place
    let rcreate: Vec<Arc<std::sync::Mutex<Option<(u64, u64)>>>> = (0..cfg.streams).map(|_| Arc::new(std::sync::Mutex::new(None))).collect();
    if cfg.replace { acc.count("runs_in_which_ended_streams_are_replaced_at_once(recycled_id)", 1) }
    if cfg.cancel_first { acc.count("runs_with_cancel_all_streams_right_before_gracefully_end_all_streams", 1) }
    for (i, (s, l)) in strms.into_iter().zip(clogs.iter()).enumerate() {
        if cfg.targeted(i) && cfg.replace {
            let inner = driven_consumer_body(s, cfg.fresh_wakers, Hold::Release, l.clone());
            let (ch2, rl, rb, pd, l2, rcr) = (ch.clone(), rlogs[i].clone(), rborn[i].clone(), prod_done.clone(), l.clone(), rcreate[i].clone());
            bodies.push(Box::new(move || {
                inner();
                if !l2.ended.load(SeqCst) { return }          // (it gave up at quiescence: reported below)
                let t0 = stamp();
                let s = ch2.create_stream();
                let t1 = stamp();
                *rcr.lock().unwrap() = Some((t0, t1));
                rb.store(t1, SeqCst);
                sched::op_done();
                // polls until the producers are done and it found nothing twice (it does not wait for the requester, which may be waiting for this very id)
                polling_consumer_body(s, Hold::Release, rl, Arc::new(move || pd.load(SeqCst) == nprod))();
            }));
        }
        else if cfg.targeted(i) { bodies.push(driven_consumer_body(s, cfg.fresh_wakers, Hold::Release, l.clone())) }
        else { let d = done.clone(); bodies.push(polling_consumer_body(s, Hold::Release, l.clone(), Arc::new(move || d.load(SeqCst) == n_to_wait))) }
    }
    for (p, (e, l)) in cfg.entries.iter().zip(plogs.iter()).enumerate() {
        let ids: Vec<u64> = (0..cfg.per_prod as u64).map(|i| ((p as u64 + 1) << 8) | (i + 1)).collect();
        let inner = producer_body(ch.clone(), *e, ids, 2, l.clone());
        let d = done.clone(); let pd = prod_done.clone();
        bodies.push(Box::new(move || { let _g = OnExit(Some(move || { d.fetch_add(1, SeqCst); pd.fetch_add(1, SeqCst); })); inner() }));
    }
    {
        let (ch, d, rr, rcall, cfg2, ids, ea, snap, pd) = (ch.clone(), done.clone(), req_returned.clone(), req_called.clone(), cfg.clone(), stream_ids.clone(), end_answers.clone(), end_all_snapshot.clone(), prod_done.clone());
        bodies.push(Box::new(move || {
            let _g = OnExit(Some(move || { d.fetch_add(1, SeqCst); }));
            for _ in 0..cfg2.delay { sched::point() }
            // (cancel first: an event accepted after the streams have ended can never be delivered and an unbounded graceful end would wait for it forever -- no
            //  verdict possible; so the sends are over before the cancellation is issued, and what races is the consumers against send + cancel)
            if cfg2.cancel_first { while pd.load(SeqCst) < nprod { sched::spin() } }
            rcall.store(stamp(), SeqCst);
            match &cfg2.req {
                Req::CancelAll => ch.cancel_all(),
                Req::EndAll => { if cfg2.cancel_first { ch.cancel_all() } let left = block_on_paused(ch.end_all(Duration::ZERO)); ea.lock().unwrap().push((usize::MAX, left == 0)); sched::op_done() }
                Req::End(v) => for i in v { let ok = block_on_paused(ch.end_stream(ids[*i], Duration::ZERO)); ea.lock().unwrap().push((*i, ok)); sched::op_done() },
            }
            rr.store(stamp(), SeqCst);
            if cfg2.req == Req::EndAll { *snap.lock().unwrap() = Some((ch.running(), ch.is_open())) }
        }));
    }
    let rep = sched::run(rc, bodies);
    acc.account(&rep);
    if rc.trace { sched::dump_trace(&rep) }
    if rep.inconclusive() { if acc.notes.len() < 10 { acc.notes.push(format!("inconclusive {:?}: {} {}", rep.outcome, cfg.json().to_string(), rc.strategy.describe())) } std::mem::forget(ch); return (None, rep.sched_hash, true) }
    let mut probs: Vec<(String, String)> = Vec::new();
    // every operation of the run that rewrote the live-listener list in place: the drops of the original streams and of their replacements, the creations of the replacements
    let rewrites: Vec<(u64, u64)> = clogs.iter().chain(rlogs.iter()).filter_map(|l| *l.drop_span.lock().unwrap()).chain(rcreate.iter().filter_map(|c| *c.lock().unwrap())).collect();
    let overlaps_rewrite = |a: u64, b: u64| rewrites.iter().any(|d| a < d.1 && d.0 < b);
    for (t, p) in &rep.panics {
        // causal attribution of one specific panic: a sender that found a listener's queue full although the workload never sends more than N events, so
        // the queue can only be full of duplicates / leftovers. That is the consequence of C07-D8 / C17-D8 (senders walk the live-listener list without
        // synchronisation while a create / drop rewrites it in place) when (a) the panicking send itself overlapped such a rewrite (its own fan-out walked a
        // half-rewritten list), or (b) the named listener was handed some event TWICE and that event's send overlapped a rewrite; any other panic stays a plain "panic"
        let mut anomaly = "panic";
        if cfg.kind.is_multi() && p.contains("is full of elements") {
            let named: Option<u32> = p.split("(#").nth(1).and_then(|r| r.split(')').next()).and_then(|d| d.parse().ok());
            if let Some(pl) = plogs.iter().find(|pl| pl.tid.load(SeqCst) as usize == *t) {
                let (a, b) = (pl.open_call.load(SeqCst), pl.panicked_at.load(SeqCst));
                if a > 0 && overlaps_rewrite(a, if b > 0 { b } else { u64::MAX }) { anomaly = "sender_panicked_on_a_listener_queue_filled_by_a_duplicate_delivered_during_a_listener_drop" }
            }
            for l in clogs.iter().chain(rlogs.iter()) {
                if named.map(|n| n != l.stream_id.load(SeqCst)).unwrap_or(false) { continue }
                let ids = l.ids();
                let dup: Vec<u64> = ids.iter().copied().filter(|i| ids.iter().filter(|j| *j == i).count() > 1).collect();
                if !dup.is_empty() && dup.iter().all(|id| plogs.iter().any(|pl| pl.calls.lock().unwrap().iter().any(|c| c.0 == *id && c.3 && overlaps_rewrite(c.1, c.2)))) {
                    anomaly = "sender_panicked_on_a_listener_queue_filled_by_a_duplicate_delivered_during_a_listener_drop";
                }
            }
        }
        probs.push((anomaly.into(), format!("thread t{t} panicked: {p}")))
    }
    let t_ret = req_returned.load(SeqCst);
    if let Outcome::Stall { spinners, .. } = &rep.outcome {
        probs.push(("request_never_completes".into(), format!("the request did not complete: every runnable thread spins ({})", spinners.iter().map(|(t, s)| format!("t{t}@{}", sched::site_name(*s))).collect::<Vec<_>>().join(", "))));
        std::mem::forget(ch.clone());
    } else {
        let mut parked_at_request = 0;
        for (i, l) in clogs.iter().enumerate() {
            if !cfg.targeted(i) { continue }
            if l.gave_up.load(SeqCst) && t_ret > 0 { probs.push(("parked_not_ended".into(), format!("targeted stream {i} is parked, not ended, in the quiescent state after the request returned: it will wait forever"))) }
            else if !l.ended.load(SeqCst) && t_ret > 0 { probs.push(("not_ended".into(), format!("targeted stream {i} never answered end-of-stream"))) }
            // a poll that started after the request had returned must not answer Pending (nothing buffered => end-of-stream)
            if t_ret > 0 { if let Some(e) = l.empties.lock().unwrap().iter().find(|e| e.0 > t_ret) { probs.push(("kept_waiting".into(), format!("targeted stream {i}: a poll started (stamp {}) after the request had returned (stamp {t_ret}) still answered Pending", e.0))) } }
            if l.empties.lock().unwrap().iter().any(|e| e.1 < req_called.load(SeqCst)) { parked_at_request += 1 }
        }
        if parked_at_request > 0 { acc.count("targeted_streams_that_had_parked_before_the_request", parked_at_request) }
        for (i, ok) in end_answers.lock().unwrap().iter() { if !ok { probs.push(("end_stream_false".into(), if *i == usize::MAX { "gracefully_end_all_streams(unbounded timeout) reported streams still running".to_string() } else { format!("gracefully_end_stream(stream {i}, unbounded timeout) answered false") })) } }
        if cfg.req == Req::EndAll && t_ret > 0 {
            // C06 at channel level: when the request returns, every event accepted before the call has been yielded (Uni: by some stream; Multi: by every
            // listener), every stream has ended, none is running, the channel is no longer open
            let t_call = req_called.load(SeqCst);
            let mut before: Vec<u64> = accepted_prefill.clone();
            for l in &plogs { for c in l.calls.lock().unwrap().iter() { if c.3 && c.2 < t_call { before.push(c.0) } } }
            acc.count("events_accepted_before_gracefully_end_all_streams", before.len() as u64);
            let yielded_by = |l: &Arc<ConsLog>, id: u64| l.yields.lock().unwrap().iter().any(|y| y.0 == id && y.3 < t_ret);
            for id in &before {
                let ok = if cfg.kind.is_multi() { clogs.iter().all(|l| yielded_by(l, *id)) } else { clogs.iter().any(|l| yielded_by(l, *id)) };
                if !ok { probs.push(("end_all_returned_before_delivery".into(), format!("gracefully_end_all_streams(unbounded) returned (stamp {t_ret}) although event {id}, accepted before the call (stamp {t_call}), had not been yielded{}", if cfg.kind.is_multi() { " by every listener" } else { "" }))) }
            }
            let snap = end_all_snapshot.lock().unwrap().clone();
            if let Some((running, open)) = snap {
                if running != 0 { probs.push(("running_after_end_all".into(), format!("right after gracefully_end_all_streams(unbounded) returned running_streams_count() was {running}"))) }
                if open { probs.push(("open_after_end_all".into(), "right after gracefully_end_all_streams(unbounded) returned is_channel_open() was still true".into())) }
            }
        }
        // a stream that was never told to end must not answer end-of-stream: the untargeted ones, and the replacements of ended ones
        for (i, l) in clogs.iter().enumerate() { if !cfg.targeted(i) && l.ended.load(SeqCst) { probs.push(("untargeted_ended".into(), format!("stream {i}, which was not told to end, answered end-of-stream"))) } }
        for (i, l) in rlogs.iter().enumerate() {
            let born = rborn[i].load(SeqCst);
            if born == 0 { continue }
            acc.count("replacement_streams_created_on_a_recycled_id", 1);
            if l.stream_id.load(SeqCst) == stream_ids[i] { acc.count("replacement_streams_that_got_the_id_of_the_ended_stream", 1) }
            if born < t_ret || t_ret == 0 { acc.count("replacement_streams_created_while_the_request_was_still_in_progress", 1) }
            if l.ended.load(SeqCst) { probs.push(("untargeted_ended".into(), format!("the stream created (id {}) after targeted stream {i} (id {}) had ended and been dropped was never told to end, yet it answered end-of-stream", l.stream_id.load(SeqCst), stream_ids[i]))) }
            else if cfg.kind.is_multi() && rep.outcome == Outcome::Done {
                // everything whose send started after the replacement's creation had returned was sent during its lifetime
                let got: HashSet<u64> = l.ids().into_iter().collect();
                for pl in &plogs { for c in pl.calls.lock().unwrap().iter() { if c.3 && c.1 > born && !got.contains(&c.0) {
                    let overlap = overlaps_rewrite(c.1, c.2);
                    probs.push((if overlap { "untargeted_missed_event_sent_during_a_listener_drop" } else { "untargeted_missed" }.into(), format!("the replacement of stream {i} never yielded event {}, whose send started after the replacement's creation had returned", c.0)));
                } } }
            }
        }
        // streams that were not targeted keep receiving
        let mut accepted: Vec<u64> = accepted_prefill.clone();
        for l in &plogs { accepted.extend(l.accepted.lock().unwrap().iter()) }
        let untargeted: Vec<usize> = (0..cfg.streams).filter(|i| !cfg.targeted(*i)).collect();
        if !untargeted.is_empty() && rep.outcome == Outcome::Done {
            if cfg.kind.is_multi() {
                for i in &untargeted {
                    let got: HashSet<u64> = clogs[*i].ids().into_iter().collect();
                    let miss: Vec<u64> = accepted.iter().copied().filter(|a| !got.contains(a)).collect();
                    if !miss.is_empty() {
                        // causal analysis: was every missed event sent while a (targeted) listener was being dropped, i.e. while the live-listener list was rewritten?
                        let all_overlap = miss.iter().all(|id| plogs.iter().any(|l| l.calls.lock().unwrap().iter().any(|c| c.0 == *id && c.3 && overlaps_rewrite(c.1, c.2))));
                        probs.push((if all_overlap { "untargeted_missed_event_sent_during_a_listener_drop" } else { "untargeted_missed" }.into(), format!("listener {i}, which was not told to end, never yielded {:?}", miss)));
                    }
                }
            } else {
                let got: HashSet<u64> = clogs.iter().chain(rlogs.iter()).flat_map(|l| l.ids()).collect();
                let miss: Vec<u64> = accepted.iter().copied().filter(|a| !got.contains(a)).collect();
                if !miss.is_empty() { probs.push(("untargeted_missed".into(), format!("events {:?} were never yielded although stream(s) {:?} were not told to end and kept polling", miss, untargeted))) }
            }
        }
        // every stream was dropped by now: the ids are reusable
        if probs.is_empty() && matches!(rep.outcome, Outcome::Done | Outcome::Quiescent { .. }) {
            if ch.running() != 0 { probs.push(("running_count".into(), format!("every stream was dropped but running_streams_count() is {}", ch.running()))) }
            let r = std::panic::catch_unwind(std::panic::AssertUnwindSafe(|| { let v: Vec<_> = (0..cfg.m).map(|_| ch.create_stream()).collect(); let n = ch.running(); drop(v); n }));
            match r { Ok(n) => { if n as usize != cfg.m { probs.push(("running_count".into(), format!("with MAX_STREAMS = {} fresh streams alive running_streams_count() is {n}", cfg.m))) } acc.count("stream_id_reuse_probes", 1) }
                      Err(_) => probs.push(("ids_not_reusable".into(), format!("creating MAX_STREAMS = {} streams after every earlier stream was dropped panicked (ids exhausted)", cfg.m))) }
        }
    }
    // C06 lane (request = end_all): a sender that panics on a queue filled through C07-D8 / C17-D8 is that finding's consequence for a send issued while the
    // streams were ending -- C06 says nothing about such sends (the send never reported success); it is counted, and left to C07 / C17
    if cfg.req == Req::EndAll {
        let before = probs.len();
        probs.retain(|p| p.0 != "sender_panicked_on_a_listener_queue_filled_by_a_duplicate_delivered_during_a_listener_drop");
        if probs.len() != before { acc.count("sender_panics_caused_by_the_unsynchronised_listener_list(C07-D8/C17-D8)_in_sends_issued_while_streams_were_ending(not_a_C06_matter)", (before - probs.len()) as u64) }
    }
    let v = if probs.is_empty() { None } else {
        let mut sigs: Vec<J> = Vec::new();
        for (a, _) in &probs { let s = J::obj().with("anomaly", J::s(a)).with("kind", J::s(cfg.kind.name())).with("request", J::s(match cfg.req { Req::CancelAll => "cancel_all_streams", Req::EndAll => "gracefully_end_all_streams", _ => "gracefully_end_stream" })); if !sigs.iter().any(|x| x.to_string() == s.to_string()) { sigs.push(s) } }
        Some(J::obj().with("what", J::s(probs.iter().map(|p| p.1.clone()).take(5).collect::<Vec<_>>().join("; "))).with("sigs", J::Arr(sigs)).with("config", cfg.json())
            .with("strategy", J::s(rc.strategy.describe())).with("outcome", rep.outcome_json())
            .with("yielded", J::Arr(clogs.iter().map(|l| crate::drive::ids_json(&l.ids())).collect())))
    };
    (v, rep.sched_hash, false)
}

pub fn run(args: &Args, acc: &mut Acc) { run_loop(args, acc, single) }

fn single(args: &Args, acc: &mut Acc, seed: u64, verbose: bool) {
    let mut rng = Rng::new(seed);
    let cfg = draw_cfg(&mut rng, args.only.as_deref(), args.get("request") == Some("end_all"));
    let nthreads = cfg.streams + cfg.entries.len() + 1;
    let mut rc = match args.lane {
        Lane::Ser => RunCfg::ser(seed, draw_strategy(&mut rng, nthreads, PAUSE_SITES, 250)),
        Lane::Free => RunCfg::free(seed, rng.below(3) as u8),
    };
    rc.trace = verbose && args.get("trace").is_some();
    let (violation, hash, inconclusive) = one_run(&cfg, &rc, acc);
    acc.count(&format!("runs[{}]", cfg.kind.name()), 1);
    acc.count(match cfg.req { Req::CancelAll => "requests[cancel_all_streams]", Req::EndAll => "requests[gracefully_end_all_streams]", _ => "requests[gracefully_end_stream]" }, 1);
    if inconclusive { return }
    acc.nontrivial(mix(hash, cfg.kind as u64 * 131 + cfg.n as u64 * 17 + cfg.m as u64 + ((cfg.streams as u64) << 20) + ((cfg.delay as u64) << 30)));
    acc.sample(3, || J::obj().with("config", cfg.json()).with("strategy", J::s(rc.strategy.describe())));
    if let Some(v) = violation { file_violation(args, acc, seed, verbose, v) }
}
