//! C14 -- OgreArc / OgreUnique handles act as shared / unique owners of one pooled value.
//!
//! 2-3 threads run scripts over {clone, drop, deref, bulk increment + raw copies, move to another thread} on handles to one or
//! two pooled values (with destructors) created through new / new_with / new_with_clones / OgreUnique::new + into_ogre_arc.
//! Oracles: the drop tracker (value destroyed while a handle lives / not destroyed once the last handle went / destroyed
//! twice), deref identity, references_count() == live handles at the quiescent end, the slot being allocatable again.

use crate::common::{draw_strategy, file_violation, run_loop, Acc, Args};
use crate::json::J;
use crate::payload::{tracker, DTok, Payload};
use crate::sched::{self, mix, Body, Lane, Outcome, Rng, RunCfg};
use reactive_mutiny::prelude::advanced::{AllocatorAtomicArray, AllocatorFullSyncArray, BoundedOgreAllocator, OgreArc, OgreUnique};
use reactive_mutiny::verif as rv;
use std::sync::{atomic::{AtomicI32, Ordering::SeqCst}, Arc, Mutex};

#[derive(Clone, Copy, Debug, PartialEq, Eq)]
pub enum Step { Clone(u8), Drop(u8),
    /// the handle goes out of scope while its thread is unwinding from a panic (caught right there): "whichever thread drops it", in whatever state
    DropUnwinding(u8), Deref(u8), Bulk(u8, u8), SendTo(u8, u8), Refs(u8), TakeMail,
    /// through a handle that several threads use at once by shared reference (it lives to the end of the run)
    CloneShared(u8), DerefShared(u8), BulkShared(u8, u8) }

#[derive(Clone, Copy, Debug, PartialEq, Eq)]
pub enum Creation { New, NewWith, NewWithClones2, NewWithClones3, UniqueIntoArc, UniqueDropped, FromAllocated, UniqueFromTrait, UniqueFromAllocatedId, UniqueFromAllocatedRef, FromAllocatedWithClones2 }

#[derive(Clone, Debug)]
pub struct Cfg { pub ring: &'static str, pub creations: Vec<Creation>, pub scripts: Vec<Vec<Step>>, pub keep_one: bool, pub origin: Option<u32>,
    /// the first handle of each value is not dealt to a thread but put where every thread can use it by shared reference
    pub shared: bool }
impl Cfg {
    pub fn json(&self) -> J {
        J::obj().with("free_list", J::s(self.ring)).with("values_created_by", J::s(format!("{:?}", self.creations))).with("keep_one_handle_to_the_end", J::Bool(self.keep_one)).with("first_handle_of_each_value_used_by_all_threads_through_a_shared_reference", J::Bool(self.shared))
            .with("scripts", J::Arr(self.scripts.iter().map(|s| J::s(format!("{:?}", s))).collect())).with("sequence_origin", self.origin.map(|o| J::i(o as i64)).unwrap_or(J::Null))
    }
}

pub const PAUSE_SITES: &[u32] = &[rv::ARC_CLONE_BEFORE, rv::ARC_INCREMENT_BEFORE, rv::ARC_DROP_BEFORE, rv::ARC_DROP_AFTER_DEC, rv::ARC_DROP_AFTER_DEALLOC, rv::UNIQUE_DROP_BEFORE, rv::DEALLOC_AFTER_DROP, rv::ALLOC_AFTER_DEQUEUE];

pub fn draw_cfg(rng: &mut Rng, only: Option<&str>) -> Cfg {
    let rings: Vec<&'static str> = ["atomic", "full_sync"].into_iter().filter(|r| only.map(|o| o == *r).unwrap_or(true)).collect();
    let ring = *rng.pick(&rings);
    let nvals = 1 + rng.below(2) as usize;
    let all = [Creation::New, Creation::NewWith, Creation::NewWithClones2, Creation::NewWithClones3, Creation::UniqueIntoArc, Creation::UniqueDropped, Creation::FromAllocated,
               Creation::UniqueFromTrait, Creation::UniqueFromAllocatedId, Creation::UniqueFromAllocatedRef, Creation::FromAllocatedWithClones2];
    let creations: Vec<Creation> = (0..nvals).map(|_| *rng.pick(&all)).collect();
    let nthreads = 2 + rng.below(2) as usize;
    let shared = rng.chance(1, 3);
    let mut scripts = Vec::new();
    for _ in 0..nthreads {
        let len = 2 + rng.below(6);
        let mut s = Vec::new();
        for _ in 0..len {
            let k = rng.below(4) as u8;
            if shared && rng.chance(2, 5) { s.push(match rng.below(10) { 0..=5 => Step::CloneShared(k), 6..=7 => Step::DerefShared(k), _ => Step::BulkShared(k, 1 + rng.below(2) as u8) }); continue }
            s.push(match rng.below(100) { 0..=24 => Step::Clone(k), 25..=49 => Step::Drop(k), 50..=54 => Step::DropUnwinding(k), 55..=64 => Step::Deref(k), 65..=74 => Step::Bulk(k, 1 + rng.below(3) as u8), 75..=86 => Step::SendTo(k, rng.below(nthreads as u64) as u8), 87..=92 => Step::Refs(k), _ => Step::TakeMail });
        }
        scripts.push(s);
    }
    let origin = match rng.below(3) { 0 => None, 1 => Some(0u32.wrapping_sub(rng.below(9) as u32)), _ => Some(rng.next() as u32) };
    Cfg { ring, creations, scripts, keep_one: rng.chance(1, 3), origin, shared }
}

/// live shared handles per value, kept by the harness (updated BEFORE a handle is dropped, AFTER one is created)
struct Shadow { live: Vec<AtomicI32>, problems: Mutex<Vec<(String, String)>> }
impl Shadow { fn problem(&self, a: &str, s: String) { let mut p = self.problems.lock().unwrap(); if p.len() < 12 { p.push((a.into(), s)) } } }

struct H<A: BoundedOgreAllocator<DTok> + Send + Sync + 'static> { arc: Option<OgreArc<DTok, A>>, v: usize, sh: Arc<Shadow> }
impl<A: BoundedOgreAllocator<DTok> + Send + Sync + 'static> H<A> {
    fn new(arc: OgreArc<DTok, A>, v: usize, sh: &Arc<Shadow>) -> Self { tracker().hold(v as u64 + 1); sh.live[v].fetch_add(1, SeqCst); H { arc: Some(arc), v, sh: sh.clone() } }
    fn a(&self) -> &OgreArc<DTok, A> { self.arc.as_ref().unwrap() }
    fn check_deref(&self) {
        let d: &DTok = &*self.a();
        if d.id() != self.v as u64 + 1 || !d.valid() { self.sh.problem("deref", format!("a live handle to value {} dereferences to id {} (valid={})", self.v + 1, d.id(), d.valid())) }
    }
}
impl<A: BoundedOgreAllocator<DTok> + Send + Sync + 'static> Drop for H<A> {
    fn drop(&mut self) {
        self.check_deref();
        tracker().unhold(self.v as u64 + 1);          // the shadow is cleared BEFORE the real release
        self.sh.live[self.v].fetch_sub(1, SeqCst);
        sched::point();
        drop(self.arc.take());
    }
}
unsafe impl<A: BoundedOgreAllocator<DTok> + Send + Sync + 'static> Send for H<A> {}
unsafe impl<A: BoundedOgreAllocator<DTok> + Send + Sync + 'static> Sync for H<A> {}   // (OgreArc is Sync: several threads may clone / dereference through one `&OgreArc`)

fn run_generic<A: BoundedOgreAllocator<DTok> + Send + Sync + 'static>(cfg: &Cfg, rc: &RunCfg, acc: &mut Acc, pool_size: usize) -> (Option<J>, u64, bool) {
    rv::set_sequence_origin(cfg.origin);
    let alloc: Arc<A> = Arc::new(A::new());
    rv::set_sequence_origin(None);
    let al: &'static A = unsafe { &*Arc::as_ptr(&alloc) };
    tracker().reset(8);
    let sh = Arc::new(Shadow { live: (0..cfg.creations.len()).map(|_| AtomicI32::new(0)).collect(), problems: Mutex::new(Vec::new()) });
    let nthreads = cfg.scripts.len();
    // create the values and deal the initial handles round-robin
    let mut initial: Vec<Vec<H<A>>> = (0..nthreads).map(|_| Vec::new()).collect();
    let mut dealt = 0usize;
    let mut expected_alive: Vec<bool> = Vec::new();
    let mut shared_handles: Vec<H<A>> = Vec::new();
    for (v, c) in cfg.creations.iter().enumerate() {
        let id = v as u64 + 1;
        let mut handles: Vec<OgreArc<DTok, A>> = Vec::new();
        match c {
            Creation::New => { let (a, slot) = OgreArc::new(al).expect("alloc"); unsafe { std::ptr::write(slot, DTok::make(id)) }; handles.push(a) }
            Creation::NewWith => handles.push(OgreArc::new_with(|s| unsafe { std::ptr::write(s, DTok::make(id)) }, al).expect("alloc")),
            Creation::NewWithClones2 => handles.extend(OgreArc::new_with_clones::<2, _>(|s| unsafe { std::ptr::write(s, DTok::make(id)) }, al).expect("alloc")),
            Creation::NewWithClones3 => handles.extend(OgreArc::new_with_clones::<3, _>(|s| unsafe { std::ptr::write(s, DTok::make(id)) }, al).expect("alloc")),
            Creation::UniqueIntoArc => { let u = OgreUnique::new(|s| unsafe { std::ptr::write(s, DTok::make(id)) }, al).expect("alloc"); if u.id() != id { sh.problem("deref", "unique handle dereferences to another value".into()) } handles.push(u.into_ogre_arc()) }
            Creation::UniqueDropped => {
                // a unique handle that is simply dropped: the value must be destroyed right there, exactly once
                let u = OgreUnique::new(|s| unsafe { std::ptr::write(s, DTok::make(id)) }, al).expect("alloc");
                drop(u);
                if tracker().drops_of(id) != 1 { sh.problem("unique_drop", format!("dropping the unique handle destroyed value {id} {} times", tracker().drops_of(id))) }
            }
            Creation::FromAllocated => { let (slot, sid) = al.alloc_ref().expect("alloc"); unsafe { std::ptr::write(slot, DTok::make(id)) }; handles.push(OgreArc::from_allocated(sid, al)) }
            // the trait form of the unique -> shared conversion (`OgreArc::from(unique)` / `unique.into()`)
            Creation::UniqueFromTrait => { let u = OgreUnique::new(|s| unsafe { std::ptr::write(s, DTok::make(id)) }, al).expect("alloc"); let a: OgreArc<DTok, A> = if id % 2 == 0 { OgreArc::from(u) } else { u.into() }; handles.push(a) }
            // unique handles adopted from an already allocated slot (by id / by reference), then converted
            Creation::UniqueFromAllocatedId => { let (slot, sid) = al.alloc_ref().expect("alloc"); unsafe { std::ptr::write(slot, DTok::make(id)) }; let u = OgreUnique::from_allocated_id(sid, al); if u.id() != id { sh.problem("deref", "unique handle (from_allocated_id) dereferences to another value".into()) } handles.push(u.into_ogre_arc()) }
            Creation::UniqueFromAllocatedRef => { let (slot, _sid) = al.alloc_ref().expect("alloc"); unsafe { std::ptr::write(slot, DTok::make(id)) }; let u = OgreUnique::from_allocated_ref(&*slot, al); if u.id() != id { sh.problem("deref", "unique handle (from_allocated_ref) dereferences to another value".into()) } handles.push(u.into_ogre_arc()) }
            Creation::FromAllocatedWithClones2 => { let (slot, sid) = al.alloc_ref().expect("alloc"); unsafe { std::ptr::write(slot, DTok::make(id)) }; handles.extend(OgreArc::from_allocated_with_clones::<2>(sid, al)) }
        }
        if tracker().drops_of(id) != 0 && *c != Creation::UniqueDropped { sh.problem("early_drop", format!("value {id} was destroyed during the creation / conversion of its handles")) }
        expected_alive.push(!handles.is_empty());
        for (hi, a) in handles.into_iter().enumerate() { if cfg.shared && hi == 0 { shared_handles.push(H::new(a, v, &sh)) } else { initial[dealt % nthreads].push(H::new(a, v, &sh)); dealt += 1 } }
    }
    let shared_handles: Arc<Vec<H<A>>> = Arc::new(shared_handles);
    let mailboxes: Arc<Vec<Mutex<Vec<H<A>>>>> = Arc::new((0..nthreads).map(|_| Mutex::new(Vec::new())).collect());
    let kept: Arc<Mutex<Vec<H<A>>>> = Arc::new(Mutex::new(Vec::new()));
    let mut bodies: Vec<Body> = Vec::new();
    for (t, (script, mut mine)) in cfg.scripts.iter().cloned().zip(initial.into_iter()).enumerate() {
        let (sh, mailboxes, kept, keep_one, shared) = (sh.clone(), mailboxes.clone(), kept.clone(), cfg.keep_one && t == 0, shared_handles.clone());
        bodies.push(Box::new(move || {
            for s in script {
                match s {
                    Step::Clone(k) => if !mine.is_empty() { let i = k as usize % mine.len(); let c = mine[i].a().clone(); let v = mine[i].v; mine.push(H::new(c, v, &sh)) },
                    Step::Drop(k) => if !mine.is_empty() { let i = k as usize % mine.len(); let h = mine.remove(i); drop(h) },
                    // (`resume_unwind` starts an unwinding -- `std::thread::panicking()` is true while `h` is dropped -- without going through the panic hook)
                    Step::DropUnwinding(k) => if !mine.is_empty() { let i = k as usize % mine.len(); let h = mine.remove(i); let _ = std::panic::catch_unwind(std::panic::AssertUnwindSafe(move || { let _h = h; std::panic::resume_unwind(Box::new(())) })); },
                    Step::Deref(k) => if !mine.is_empty() { mine[k as usize % mine.len()].check_deref() },
                    Step::Bulk(k, c) => if !mine.is_empty() {
                        let i = k as usize % mine.len(); let v = mine[i].v;
                        unsafe { mine[i].a().increment_references(c as u32); }
                        for _ in 0..c { let r = unsafe { mine[i].a().raw_copy() }; mine.push(H::new(r, v, &sh)) }
                    },
                    Step::SendTo(k, to) => if !mine.is_empty() { let i = k as usize % mine.len(); let h = mine.remove(i); mailboxes[to as usize].lock().unwrap().push(h) },
                    Step::TakeMail => { let got: Vec<H<A>> = std::mem::take(&mut *mailboxes[t].lock().unwrap()); mine.extend(got) }
                    Step::CloneShared(k) => if !shared.is_empty() { let h = &shared[k as usize % shared.len()]; let c = h.a().clone(); mine.push(H::new(c, h.v, &sh)) },
                    Step::DerefShared(k) => if !shared.is_empty() { shared[k as usize % shared.len()].check_deref() },
                    Step::BulkShared(k, c) => if !shared.is_empty() {
                        let h = &shared[k as usize % shared.len()];
                        unsafe { h.a().increment_references(c as u32); }
                        for _ in 0..c { let r = unsafe { h.a().raw_copy() }; mine.push(H::new(r, h.v, &sh)) }
                    },
                    Step::Refs(k) => if !mine.is_empty() { let r = mine[k as usize % mine.len()].a().references_count(); if r == 0 || r > 64 { sh.problem("refcount", format!("references_count() answered {r} through a live handle")) } },
                }
                sched::op_done();
            }
            if keep_one && !mine.is_empty() { let h = mine.remove(0); kept.lock().unwrap().push(h) }
            while let Some(h) = mine.pop() { drop(h); sched::op_done() }
        }));
    }
    let rep = sched::run(rc, bodies);
    acc.account(&rep);
    if rep.inconclusive() { std::mem::forget(shared_handles); std::mem::forget(alloc); return (None, rep.sched_hash, true) }
    let mut probs: Vec<(String, String)> = sh.problems.lock().unwrap().clone();
    for (t, p) in &rep.panics { probs.push(("panic".into(), format!("thread t{t} panicked: {p}"))) }
    if let Outcome::Stall { .. } = rep.outcome { probs.push(("stall".into(), "run stalled".into())) }
    for p in tracker().take_problems() { probs.push(("drop".into(), p)) }
    // quiescent point: handles in transit (mailboxes) and kept ones are alive; everything else is gone
    if rep.outcome == Outcome::Done && probs.is_empty() {
        let mut alive: Vec<H<A>> = std::mem::take(&mut *kept.lock().unwrap());
        match Arc::try_unwrap(shared_handles) { Ok(v) => alive.extend(v), Err(a) => { std::mem::forget(a); probs.push(("harness".into(), "the shared handles are still referenced by a thread".into())) } }
        for m in mailboxes.iter() { alive.extend(std::mem::take(&mut *m.lock().unwrap())) }
        for (v, c) in cfg.creations.iter().enumerate() {
            let id = v as u64 + 1;
            let live = alive.iter().filter(|h| h.v == v).count();
            if sh.live[v].load(SeqCst) != live as i32 { probs.push(("harness".into(), format!("shadow count {} vs {} handles found", sh.live[v].load(SeqCst), live))) }
            let drops = tracker().drops_of(id);
            if live > 0 {
                if drops != 0 { probs.push(("early_drop".into(), format!("value {id} was destroyed although {live} handle(s) to it are still alive"))) }
                for h in alive.iter().filter(|h| h.v == v) {
                    h.check_deref();
                    let r = h.a().references_count();
                    if r as usize != live { probs.push(("refcount".into(), format!("value {id}: references_count() = {r} with {live} live handle(s) and no clone or drop in progress"))); break }
                }
                acc.count("refcounts_compared_at_quiescence", 1);
            } else if expected_alive[v] || *c == Creation::UniqueDropped {
                if drops != 1 { probs.push((if drops == 0 { "not_dropped" } else { "double_drop" }.into(), format!("value {id}: every handle is gone and its destructor ran {drops} time(s)"))) }
            }
        }
        probs.extend(sh.problems.lock().unwrap().drain(..));
        // the last handles go now, on this thread
        drop(alive);
        for v in 0..cfg.creations.len() { let d = tracker().drops_of(v as u64 + 1); if d != 1 { probs.push((if d == 0 { "not_dropped" } else { "double_drop" }.into(), format!("value {}: after the last handle was dropped its destructor had run {d} time(s)", v + 1))) } }
        for p in tracker().take_problems() { probs.push(("drop".into(), p)) }
        // every slot is allocatable again
        if probs.is_empty() {
            let mut got = Vec::new();
            for _ in 0..pool_size { match al.alloc_ref() { Some((_, id)) => got.push(id), None => break } }
            if got.len() != pool_size { probs.push(("slot_not_returned".into(), format!("after all handles were dropped only {} of {pool_size} pool slots can be allocated", got.len()))) }
            tracker().set_enabled(false);           // these slots hold stale bytes of dropped values: deallocating them runs the destructor on garbage by design of the pool
            for id in got { al.dealloc_id(id) }
            tracker().set_enabled(true);
            acc.count("slot_reuse_probes", 1);
        }
    } else if probs.is_empty() { /* nothing to say */ } else { std::mem::forget(shared_handles); std::mem::forget(alloc.clone()) }
    let v = if probs.is_empty() { None } else {
        let mut sigs: Vec<J> = Vec::new();
        for (a, _) in &probs { let s = J::obj().with("anomaly", J::s(a)).with("free_list", J::s(cfg.ring)); if !sigs.iter().any(|x| x.to_string() == s.to_string()) { sigs.push(s) } }
        Some(J::obj().with("what", J::s(probs.iter().map(|p| p.1.clone()).take(5).collect::<Vec<_>>().join("; "))).with("sigs", J::Arr(sigs)).with("config", cfg.json())
            .with("strategy", J::s(rc.strategy.describe())).with("outcome", rep.outcome_json()))
    };
    (v, rep.sched_hash, false)
}

pub fn run(args: &Args, acc: &mut Acc) { run_loop(args, acc, single) }

fn single(args: &Args, acc: &mut Acc, seed: u64, verbose: bool) {
    let mut rng = Rng::new(seed);
    let cfg = draw_cfg(&mut rng, args.only.as_deref());
    let mut rc = match args.lane {
        Lane::Ser => RunCfg::ser(seed, draw_strategy(&mut rng, cfg.scripts.len(), PAUSE_SITES, 120)),
        Lane::Free => RunCfg::free(seed, rng.below(3) as u8),
    };
    rc.trace = verbose && args.get("trace").is_some();
    let (violation, hash, inconclusive) = if cfg.ring == "atomic" { run_generic::<AllocatorAtomicArray<DTok, 4>>(&cfg, &rc, acc, 4) } else { run_generic::<AllocatorFullSyncArray<DTok, 4>>(&cfg, &rc, acc, 4) };
    acc.count(&format!("runs[{}]", cfg.ring), 1);
    if inconclusive { return }
    let mut ch = cfg.creations.len() as u64;
    for s in &cfg.scripts { for st in s { ch = mix(ch, match st { Step::Clone(k) => *k as u64, Step::Drop(k) => 10 + *k as u64, Step::DropUnwinding(k) => 14 + *k as u64, Step::Deref(k) => 20 + *k as u64, Step::Bulk(k, c) => 30 + *k as u64 * 4 + *c as u64, Step::SendTo(k, t) => 60 + *k as u64 * 4 + *t as u64, Step::Refs(k) => 90 + *k as u64, Step::CloneShared(k) => 100 + *k as u64, Step::DerefShared(k) => 110 + *k as u64, Step::BulkShared(k, c) => 120 + *k as u64 * 4 + *c as u64, Step::TakeMail => 99 }) } }
    acc.nontrivial(mix(if args.lane == Lane::Ser { hash } else { 0 }, ch));
    acc.sample(3, || J::obj().with("config", cfg.json()).with("strategy", J::s(rc.strategy.describe())));
    if let Some(v) = violation { file_violation(args, acc, seed, verbose, v) }
}
