//! C02 -- Uni: delivery order and capacity behave as one atomic bounded FIFO queue.
//!
//! Short concurrent histories of send / poll / release-handle operations, stamped at the client boundary, are checked for
//! linearizability (WGL) against a bounded FIFO whose "full" answer uses the property's own wording: it may take effect
//! wherever occupancy + operations in progress during the call reach BUFFER_SIZE. Workloads: the five Uni channel kinds
//! through their streams, and the two raw rings (`AtomicMove`, `FullSyncMove`) directly. A second workload (`order`) runs
//! long free-running histories and checks per-producer order per stream.

use crate::chan::{self, Chan, Item, Kind, SendRes, Strm};
use crate::common::{draw_strategy, file_violation, run_loop, Acc, Args};
use crate::drive::{entries_for, send_via, stamp, Entry};
use crate::json::J;
use crate::lin::{self, Ev, Fifo, QOp, Verdict};
use crate::payload::{Payload, Tok};
use crate::sched::{self, mix, Body, Lane, Outcome, Rng, RunCfg};
use reactive_mutiny::ogre_std::ogre_queues::{
    atomic::atomic_move::AtomicMove, full_sync::full_sync_move::FullSyncMove,
    meta_container::MoveContainer, meta_publisher::MovePublisher, meta_subscriber::MoveSubscriber,
};
use reactive_mutiny::verif as rv;
use std::sync::{Arc, Mutex};
use std::task::Poll;

#[derive(Clone, Copy, Debug, PartialEq, Eq)]
pub enum Step { Send(Entry), Poll, Release, SendUntilFull, PollUntilEmpty }

/// the thing under test: a Uni channel (through streams) or a raw ring
pub trait Q: Send + Sync {
    fn name(&self) -> String;
    fn cap(&self) -> u32;
    fn holds(&self) -> bool;
    fn send(&self, e: Entry, id: u64) -> bool;
    fn len(&self) -> u32;
}
pub trait QRecv: Send { fn recv(&mut self) -> Option<Item2>; }
pub enum Item2 { Plain(u64, bool), Handle(Item) }
impl Item2 { fn id(&self) -> u64 { match self { Item2::Plain(i, _) => *i, Item2::Handle(h) => h.id } } fn valid(&self) -> bool { match self { Item2::Plain(_, v) => *v, Item2::Handle(h) => h.valid } } }

struct ChanQ(Arc<dyn Chan>);
impl Q for ChanQ {
    fn name(&self) -> String { self.0.info().describe() }
    fn cap(&self) -> u32 { self.0.info().n as u32 }
    fn holds(&self) -> bool { self.0.info().kind.is_zero_copy() }
    fn send(&self, e: Entry, id: u64) -> bool { send_via(&*self.0, e, id) == SendRes::Ok }
    fn len(&self) -> u32 { self.0.pending() }
}
struct StrmRecv(Box<dyn Strm>);
impl QRecv for StrmRecv {
    fn recv(&mut self) -> Option<Item2> {
        match self.0.poll(&chan::noop_waker()) { Poll::Ready(Some(i)) => Some(Item2::Handle(i)), Poll::Ready(None) => panic!("the stream ended by itself"), Poll::Pending => None }
    }
}

struct RingQ<R: MovePublisher<Tok> + MoveSubscriber<Tok> + Send + Sync + 'static>(R, &'static str, u32);
impl<R: MovePublisher<Tok> + MoveSubscriber<Tok> + Send + Sync + 'static> Q for Arc<RingQ<R>> {
    fn name(&self) -> String { format!("{}<N={}>", self.1, self.2) }
    fn cap(&self) -> u32 { self.2 }
    fn holds(&self) -> bool { false }
    fn send(&self, e: Entry, id: u64) -> bool {
        match e {
            Entry::SendWith => self.0.publish(|slot| unsafe { std::ptr::write(slot, Tok::make(id)) }, || false, |_| {}).is_none(),
            _ => self.0.publish_movable(Tok::make(id)).0.is_some(),
        }
    }
    fn len(&self) -> u32 { self.0.available_elements_count() as u32 }
}
struct RingRecv<R: MovePublisher<Tok> + MoveSubscriber<Tok> + Send + Sync + 'static>(Arc<RingQ<R>>);
impl<R: MovePublisher<Tok> + MoveSubscriber<Tok> + Send + Sync + 'static> QRecv for RingRecv<R> {
    fn recv(&mut self) -> Option<Item2> { self.0 .0.consume_movable().map(|t| Item2::Plain(t.id(), t.valid())) }
}

macro_rules! ring { ($t:ident, $name:expr, $n:expr, [$($N:literal),*]) => { match $n { $($N => { let r = Arc::new(RingQ($t::<Tok, $N>::new(), $name, $N)); let q: Arc<dyn Q> = Arc::new(r.clone()); let rr = r; (q, Box::new(move || Box::new(RingRecv(rr.clone())) as Box<dyn QRecv>) as Box<dyn Fn() -> Box<dyn QRecv>>) })* _ => unreachable!() } } }

#[derive(Clone, Debug)]
pub struct Cfg { pub target: String, pub kind: Option<Kind>, pub n: usize, pub m: usize, pub scripts: Vec<Vec<Step>>, pub receivers: usize }
impl Cfg {
    pub fn json(&self) -> J {
        J::obj().with("target", J::s(&self.target)).with("N", J::i(self.n as i64)).with("M", J::i(self.m as i64)).with("receivers", J::i(self.receivers as i64))
            .with("scripts", J::Arr(self.scripts.iter().map(|s| J::s(format!("{:?}", s))).collect()))
    }
}

pub const PAUSE_SITES: &[u32] = super::c01::PAUSE_SITES;

pub fn draw_cfg(rng: &mut Rng, only: Option<&str>, lane: Lane) -> Cfg {
    let mut targets: Vec<String> = chan::UNI_KINDS.iter().map(|k| k.name().to_string()).collect();
    targets.push("ring.atomic".into()); targets.push("ring.full_sync".into());
    if let Some(o) = only { targets.retain(|t| t == o) }
    let target = rng.pick(&targets).clone();
    let kind = Kind::from_name(&target);
    let (n, m) = match kind {
        Some(k) => *rng.pick(&chan::cfgs_for(k, false).into_iter().filter(|c| c.0 <= 8).collect::<Vec<_>>()),
        None => (*rng.pick(&[2usize, 4, 8]), 4),
    };
    let nthreads = 2 + rng.below(3) as usize;
    let receivers = 1 + rng.below(m.min(nthreads) as u64) as usize;
    let es: Vec<Entry> = match kind {
        Some(k) => { let mut e = entries_for(k); e.retain(|x| *x != Entry::SendAsyncSuspended || lane == Lane::Ser); if k == Kind::UniMoveCrossbeam { e = vec![Entry::Send] } e }
        None => vec![Entry::Send, Entry::SendWith],
    };
    let holds = kind.map(|k| k.is_zero_copy()).unwrap_or(false);
    let burst = rng.chance(1, 4);
    let mut scripts = Vec::new();
    for t in 0..nthreads {
        let can_recv = t < receivers;
        let len = 2 + rng.below(6) as usize;
        let mut s = Vec::new();
        if burst {
            s.push(Step::SendUntilFull);
            if can_recv { s.push(Step::PollUntilEmpty) }
        } else {
            for _ in 0..len {
                let r = rng.below(100);
                if can_recv && r < 45 { s.push(Step::Poll) }
                else if can_recv && holds && r < 60 { s.push(Step::Release) }
                else { s.push(Step::Send(*rng.pick(&es))) }
            }
        }
        scripts.push(s);
    }
    Cfg { target, kind, n, m, scripts, receivers }
}

type Hist = Arc<Mutex<Vec<Ev<QOp>>>>;

fn body(q: Arc<dyn Q>, mut rx: Option<Box<dyn QRecv>>, script: Vec<Step>, tid: u32, hist: Hist, problems: Arc<Mutex<Vec<String>>>) -> Body {
    Box::new(move || {
        let mut local: Vec<Ev<QOp>> = Vec::new();
        let mut held: Vec<Item2> = Vec::new();
        let mut next = 1u64;
        let holds = q.holds();
        let cap = q.cap();
        let do_send = |e: Entry, next: &mut u64, local: &mut Vec<Ev<QOp>>| -> bool {
            let id = ((tid as u64 + 1) << 8) | *next; *next += 1;
            let c = stamp(); let ok = q.send(e, id); let r = stamp();
            local.push(Ev { thread: tid, call: c, ret: r, op: if ok { QOp::SendOk(id) } else { QOp::SendFull { slack: 0 } } });
            sched::op_done();
            ok
        };
        let mut do_poll = |local: &mut Vec<Ev<QOp>>, held: &mut Vec<Item2>| -> bool {
            let Some(rx) = rx.as_mut() else { return false };
            let c = stamp(); let it = rx.recv(); let r = stamp();
            let got = it.is_some();
            match it {
                Some(it) => {
                    if !it.valid() { problems.lock().unwrap().push(format!("a corrupted payload was received (id field {:#x})", it.id())) }
                    local.push(Ev { thread: tid, call: c, ret: r, op: QOp::RecvSome(it.id()) });
                    if holds { held.push(it) }
                }
                None => local.push(Ev { thread: tid, call: c, ret: r, op: QOp::RecvNone { excusable: false } }),
            }
            sched::op_done();
            got
        };
        let do_release = |local: &mut Vec<Ev<QOp>>, held: &mut Vec<Item2>| {
            if held.is_empty() { return }
            let it = held.remove(0); let id = it.id();
            let c = stamp(); drop(it); let r = stamp();
            local.push(Ev { thread: tid, call: c, ret: r, op: QOp::Release(id) });
            sched::op_done();
        };
        for s in script {
            match s {
                Step::Send(e) => { do_send(e, &mut next, &mut local); }
                Step::Poll => { do_poll(&mut local, &mut held); }
                Step::Release => do_release(&mut local, &mut held),
                Step::SendUntilFull => { let mut k = 0; while do_send(Entry::Send, &mut next, &mut local) && k < cap + 2 { k += 1 } }
                Step::PollUntilEmpty => { let mut k = 0; while k < cap + 4 { if holds && !held.is_empty() { do_release(&mut local, &mut held) } if !do_poll(&mut local, &mut held) { break } k += 1 } }
            }
        }
        // handles still held are released at the end (recorded, so the model's occupancy is right for everybody else's operations)
        while !held.is_empty() { do_release(&mut local, &mut held) }
        hist.lock().unwrap().extend(local);
    })
}

pub fn one_run(cfg: &Cfg, rc: &RunCfg, acc: &mut Acc) -> (Option<J>, u64, bool) {
    let (q, mk_rx, _keep): (Arc<dyn Q>, Box<dyn Fn() -> Box<dyn QRecv>>, Option<Arc<dyn Chan>>) = match cfg.kind {
        Some(k) => {
            let ch = chan::make(k, cfg.n, cfg.m, false).expect("instantiation");
            let ch2 = ch.clone();
            let lane = rc.lane;
            (Arc::new(ChanQ(ch.clone())), Box::new(move || { let mut s = ch2.create_stream(); if lane == Lane::Free { crate::drive::preregister_noop(&mut s) } Box::new(StrmRecv(s)) as Box<dyn QRecv> }), Some(ch))
        }
        None => {
            let (q, f) = if cfg.target == "ring.atomic" { ring!(AtomicMove, "ring.atomic", cfg.n, [2, 4, 8]) } else { ring!(FullSyncMove, "ring.full_sync", cfg.n, [2, 4, 8]) };
            (q, f, None)
        }
    };
    let hist: Hist = Arc::new(Mutex::new(Vec::new()));
    let problems = Arc::new(Mutex::new(Vec::new()));
    let mut bodies: Vec<Body> = Vec::new();
    for (t, s) in cfg.scripts.iter().enumerate() {
        let rx = if t < cfg.receivers { Some(mk_rx()) } else { None };
        bodies.push(body(q.clone(), rx, s.clone(), t as u32, hist.clone(), problems.clone()));
    }
    let rep = sched::run(rc, bodies);
    acc.account(&rep);
    if rep.inconclusive() { std::mem::forget(_keep); std::mem::forget(q); return (None, rep.sched_hash, true) }
    let mut probs: Vec<(String, String)> = problems.lock().unwrap().drain(..).map(|p| ("corrupt".to_string(), p)).collect();
    for (t, p) in &rep.panics { probs.push(("panic".into(), format!("thread t{t} panicked: {p}"))) }
    if let Outcome::Stall { .. } = rep.outcome { probs.push(("stall".into(), format!("run stalled: {}", rep.outcome_json().to_string()))) }
    let mut h = hist.lock().unwrap().clone();
    h.sort_by_key(|e| e.call);
    // "full" may take effect wherever occupancy + operations in progress during the call reach the capacity
    let slack = lin::overlaps(&h, |o| matches!(o, QOp::SendOk(_) | QOp::SendFull { .. } | QOp::RecvSome(_) | QOp::Release(_)));
    for (e, s) in h.iter_mut().zip(slack) { if let QOp::SendFull { slack } = &mut e.op { *slack = s } }
    acc.count("operations", h.len() as u64);
    acc.count("answers_full", h.iter().filter(|e| matches!(e.op, QOp::SendFull { .. })).count() as u64);
    acc.count("answers_empty", h.iter().filter(|e| matches!(e.op, QOp::RecvNone { .. })).count() as u64);
    acc.count("items_received", h.iter().filter(|e| matches!(e.op, QOp::RecvSome(_))).count() as u64);
    if probs.is_empty() && rep.outcome == Outcome::Done {
        match lin::check(Fifo::new(q.cap(), q.holds()), &h, 2_000_000) {
            Verdict::Linearizable { states } => { acc.count("wgl_states", states); acc.count("histories_linearizable", 1) }
            Verdict::Budget { states } => { acc.count("wgl_states", states); acc.count("histories_checker_budget_exhausted(inconclusive)", 1); acc.inconclusive += 1 }
            Verdict::NotLinearizable { states, longest } => {
                acc.count("wgl_states", states);
                // causal analysis: is the only thing a sequential queue cannot explain an "empty" answer given while another thread's
                // empty-handed poll was still in progress?
                let mut h2 = h.clone();
                for i in 0..h2.len() {
                    if let QOp::RecvNone { .. } = h2[i].op {
                        let (c, r, t) = (h2[i].call, h2[i].ret, h2[i].thread);
                        let ex = h.iter().any(|o| o.thread != t && matches!(o.op, QOp::RecvNone { .. }) && o.call < r && c < o.ret);
                        h2[i].op = QOp::RecvNone { excusable: ex };
                    }
                }
                let mut relaxed = Fifo::new(q.cap(), q.holds()); relaxed.relaxed_empty = true;
                if matches!(lin::check(relaxed, &h2, 2_000_000), Verdict::Linearizable { .. }) {
                    probs.push(("spurious_empty_during_concurrent_empty_poll".into(), format!("a poll answered 'nothing' although an accepted event was in the queue during the whole call (another thread's empty-handed poll was in progress); otherwise the history of {} operations is explained by a bounded FIFO of capacity {}", h.len(), q.cap())));
                } else
                { probs.push(("not_linearizable".into(), format!("no sequential bounded FIFO (capacity {}) explains this history of {} operations (longest explainable prefix: {} operations)", q.cap(), h.len(), longest.len()))); }
            }
        }
        // at quiescence the reported length equals the model's: everything sent and not received
        let sent = h.iter().filter(|e| matches!(e.op, QOp::SendOk(_))).count(); let recvd = h.iter().filter(|e| matches!(e.op, QOp::RecvSome(_))).count();
        if probs.is_empty() && q.len() as usize != sent - recvd { probs.push(("length".into(), format!("at quiescence the reported length is {} but {} events were accepted and {} received", q.len(), sent, recvd))) }
    }
    let v = if probs.is_empty() { None } else {
        let mut sigs: Vec<J> = Vec::new();
        for (a, _) in &probs { let s = J::obj().with("anomaly", J::s(a)).with("kind", J::s(&cfg.target)); if !sigs.iter().any(|x| x.to_string() == s.to_string()) { sigs.push(s) } }
        Some(J::obj().with("what", J::s(probs.iter().map(|p| p.1.clone()).take(4).collect::<Vec<_>>().join("; "))).with("sigs", J::Arr(sigs))
            .with("config", cfg.json()).with("strategy", J::s(rc.strategy.describe())).with("outcome", rep.outcome_json())
            .with("history", J::Arr(h.iter().map(lin::ev_json).collect())))
    };
    if acc.samples.len() < 2 && h.len() >= 6 { acc.samples.push(J::obj().with("target", J::s(q.name())).with("history", J::Arr(h.iter().map(lin::ev_json).collect()))) }
    // distinct = distinct observed history (who did what with which result, in call order), not merely a distinct seed
    let mut hh = cfg.n as u64;
    for e in h.iter() { hh = mix(hh, (e.thread as u64) << 56 ^ match &e.op { QOp::SendOk(i) => *i, QOp::SendFull { .. } => 1 << 40, QOp::RecvSome(i) => 2 << 40 | *i, QOp::RecvNone { .. } => 3 << 40, QOp::Release(i) => 4 << 40 | *i, _ => 5 << 40 }) }
    (v, hh, false)
}

// ------------------------------------------------------------------------------------------------ long free-running order check

/// long runs: P producers, S polling consumers; every stream must yield each producer's events in that producer's send order,
/// nothing twice, nothing unsent, and everything accepted once the producers are done
fn order_run(args: &Args, acc: &mut Acc, seed: u64, verbose: bool) {
    let mut rng = Rng::new(seed);
    let kinds: Vec<Kind> = chan::UNI_KINDS.iter().copied().filter(|k| args.only.as_deref().map(|o| k.name() == o).unwrap_or(true)).collect();
    let kname = rng.pick(&kinds).name();
    let mut c = super::c01::draw_cfg(&mut rng, Some(kname), Lane::Free);
    c.droppy = false; c.retries = 1_000_000;
    if !chan::cfgs_for(c.kind, false).contains(&(c.n, c.m)) { let (n, m) = *rng.pick(&chan::cfgs_for(c.kind, false)); c.n = n; c.m = m; c.streams = c.streams.min(m) }
    let rc = match args.lane { Lane::Free => RunCfg::free(seed, rng.below(3) as u8), Lane::Ser => RunCfg::ser(seed, draw_strategy(&mut rng, c.streams + c.entries.len(), PAUSE_SITES, 300)) };
    let ch = chan::make(c.kind, c.n, c.m, false).expect("instantiation");
    let mut strms: Vec<_> = (0..c.streams).map(|_| ch.create_stream()).collect();
    if rc.lane == Lane::Free { for s in strms.iter_mut() { crate::drive::preregister_noop(s) } }
    let clogs: Vec<Arc<crate::drive::ConsLog>> = (0..c.streams).map(|_| Arc::new(Default::default())).collect();
    let plogs: Vec<Arc<crate::drive::ProdLog>> = c.entries.iter().map(|_| Arc::new(Default::default())).collect();
    let done = Arc::new(std::sync::atomic::AtomicU32::new(0));
    let nprod = c.entries.len() as u32;
    let mut bodies: Vec<Body> = Vec::new();
    for (s, l) in strms.into_iter().zip(clogs.iter()) { let d = done.clone(); bodies.push(crate::drive::polling_consumer_body(s, crate::drive::Hold::Release, l.clone(), Arc::new(move || d.load(std::sync::atomic::Ordering::SeqCst) == nprod))) }
    let per = if rc.lane == Lane::Ser { c.per_prod.min(6) } else { c.per_prod };
    for (p, (e, l)) in c.entries.iter().zip(plogs.iter()).enumerate() {
        let ids: Vec<u64> = (0..per as u64).map(|i| ((p as u64 + 1) << 20) | (i + 1)).collect();
        let inner = crate::drive::producer_body(ch.clone(), *e, ids, c.retries, l.clone());
        let d = done.clone();
        bodies.push(Box::new(move || { let _g = crate::drive::OnExit(Some(move || { d.fetch_add(1, std::sync::atomic::Ordering::SeqCst); })); inner() }));
    }
    let rep = sched::run(&rc, bodies);
    acc.account(&rep);
    acc.count(&format!("order_runs[{}]", c.kind.name()), 1);
    if rep.inconclusive() { std::mem::forget(ch); return }
    let mut probs: Vec<(String, String)> = Vec::new();
    for (t, p) in &rep.panics { probs.push(("panic".into(), format!("thread t{t} panicked: {p}"))) }
    let mut total = 0usize;
    for (si, l) in clogs.iter().enumerate() {
        let mut last: std::collections::HashMap<u64, u64> = Default::default();
        for (id, valid, _, _) in l.yields.lock().unwrap().iter() {
            total += 1;
            if !*valid { probs.push(("corrupt".into(), format!("stream {si} yielded a corrupted payload"))) }
            let (p, k) = (id >> 20, id & 0xFFFFF);
            if let Some(prev) = last.get(&p) { if *prev >= k { probs.push(("order".into(), format!("stream {si} yielded event #{k} of producer {p} after its event #{prev}"))) } }
            last.insert(p, k);
        }
    }
    let accepted: usize = plogs.iter().map(|l| l.accepted.lock().unwrap().len()).sum();
    if rep.outcome == Outcome::Done && total != accepted { probs.push(("count".into(), format!("{accepted} events accepted, {total} yielded"))) }
    acc.count("order_events", total as u64);
    acc.nontrivial(mix(rep.sched_hash, 77 + c.kind as u64));
    if !probs.is_empty() {
        probs.truncate(6);
        let sigs: Vec<J> = probs.iter().map(|p| J::obj().with("anomaly", J::s(&p.0)).with("kind", J::s(c.kind.name()))).collect();
        let v = J::obj().with("what", J::s(probs.iter().map(|p| p.1.clone()).collect::<Vec<_>>().join("; "))).with("sigs", J::Arr(sigs)).with("config", c.json()).with("workload", J::s("order"));
        file_violation(args, acc, seed, verbose, v);
    }
}

pub fn run(args: &Args, acc: &mut Acc) {
    if args.get("workload") == Some("order") { run_loop(args, acc, order_run) } else { run_loop(args, acc, single) }
}

fn single(args: &Args, acc: &mut Acc, seed: u64, verbose: bool) {
    let mut rng = Rng::new(seed);
    let cfg = draw_cfg(&mut rng, args.only.as_deref(), args.lane);
    let mut rc = match args.lane {
        Lane::Ser => RunCfg::ser(seed, draw_strategy(&mut rng, cfg.scripts.len(), PAUSE_SITES, 200)),
        Lane::Free => RunCfg::free(seed, rng.below(3) as u8),
    };
    rc.trace = verbose && args.get("trace").is_some();
    let (violation, hash, inconclusive) = one_run(&cfg, &rc, acc);
    acc.count(&format!("runs[{}]", cfg.target), 1);
    if inconclusive { return }
    acc.nontrivial(mix(hash, cfg.n as u64 * 17 + cfg.scripts.len() as u64 + cfg.target.len() as u64 * 1000 + cfg.scripts.iter().map(|s| s.len() as u64).sum::<u64>() * 31));
    if let Some(v) = violation { file_violation(args, acc, seed, verbose, v) }
}
