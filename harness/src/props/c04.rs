//! C04 -- no lost wake-up.
//!
//! Closed, finite system: consumers are minimal executors (poll; park on Pending until the waker is invoked),
//! producers perform a few sends and exit. Once every producer has returned and every consumer is parked with no
//! wake pending nothing can ever happen again; an accepted event that is undelivered in that state never will be.

use crate::chan::{self, Kind};
use crate::common::{draw_strategy, hex, Acc, Args};
use crate::drive::{self, driven_consumer_body, entries_for, ids_json, producer_body, ConsLog, Entry, Hold, ProdLog};
use crate::json::J;
use crate::sched::{self, mix, Body, Lane, Outcome, Rng, RunCfg};
use reactive_mutiny::verif as rv;
use std::sync::{atomic::Ordering::SeqCst, Arc};

#[derive(Clone, Debug)]
pub struct Cfg {
    pub kind: Kind, pub n: usize, pub m: usize,
    pub streams: usize,
    pub entries: Vec<Entry>,      // one per producer
    pub per_prod: u32,
    pub prefill: u32,
    pub fresh_wakers: bool,
    /// (with fresh wakers) only the waker of the most recent poll wakes the consumer, which now and then polls again, with a new waker, although nobody woke it
    pub strict_wakers: bool,
    /// Multi kinds only: listeners created BEFORE the driven ones and dropped again before anything is sent, so the driven listeners do not
    /// own the stream ids 0.. (position in the live-listener list != stream id)
    pub predropped: usize,
}
impl Cfg {
    pub fn json(&self) -> J {
        J::obj().with("kind", J::s(self.kind.name())).with("N", J::i(self.n as i64)).with("M", J::i(self.m as i64))
            .with("streams", J::i(self.streams as i64))
            .with("producers", J::Arr(self.entries.iter().map(|e| J::s(e.name())).collect()))
            .with("events_per_producer", J::i(self.per_prod as i64)).with("prefill", J::i(self.prefill as i64))
            .with("fresh_wakers", J::Bool(self.fresh_wakers)).with("only_the_waker_of_the_most_recent_poll_counts", J::Bool(self.strict_wakers)).with("listeners_created_first_and_dropped_before_the_sends", J::i(self.predropped as i64))
    }
}

pub const PAUSE_SITES: &[u32] = &[
    rv::AM_LEAK_AFTER_RESERVE, rv::AM_PUBLISH_BEFORE, rv::UNI_AFTER_PUBLISH_BEFORE_WAKE, rv::FS_PUBLISH_BEFORE, rv::FS_LEAK_LOCKED,
    rv::MS_AFTER_CONSUME_NONE, rv::MS_AFTER_KEEP_RUNNING, rv::MS_BEFORE_PENDING, rv::SM_REGISTER_BEFORE_COMPARE, rv::SM_REGISTER_BEFORE_SELF_WAKE,
    rv::SM_WAKE_BEFORE_READ, rv::MULTI_FANOUT_BEFORE_PUBLISH, rv::MULTI_FANOUT_BEFORE_WAKE, rv::UNI_XB_BETWEEN_LEN_AND_SEND,
    rv::UNI_XB_AFTER_SEND_BEFORE_WAKE, rv::MULTI_XB_BETWEEN_LEN_AND_SEND, rv::MMAP_PUBLISH_AFTER_SETTER, rv::MMAP_PUBLISH_AFTER_RESERVE,
    rv::AM_CONSUME_AFTER_RESERVE, rv::AM_CONSUME_AFTER_READ, rv::AM_PUBLISH_INDEX_BEFORE,
];

pub fn draw_cfg(rng: &mut Rng, only: Option<&str>, gated_only: bool) -> Cfg {
    let mut kinds: Vec<Kind> = chan::ALL_KINDS.iter().copied().filter(|k| only.map(|o| k.name() == o).unwrap_or(true)).filter(|k| !(cfg!(miri) && *k == Kind::MultiMmap)).collect();   // (Miri cannot interpret file-backed mmap)
    // C20 lane (`--set entry=async_gated`): "when the suspended send finally completes, its event is delivered as well" -- to a stream that is DRIVEN (parked when
    // Pending), so the completed send itself has to wake it. Kinds that implement send_with_async, minus the two whose suspended send blocks everybody (C20-D9a/b)
    // and minus the four atomic-ring kinds whose wake decision is a listed finding of its own (C04-D3 / C04-D10): what is left must simply deliver
    if gated_only { kinds.retain(|k| k.has_async_send() && !matches!(k, Kind::UniMoveAtomic | Kind::UniMoveFullSync | Kind::UniZcAtomic | Kind::MultiArcAtomic | Kind::MultiOgreAtomic)) }
    let kind = *rng.pick(&kinds);
    let cfgs: Vec<(usize, usize)> = chan::cfgs_for(kind, false).into_iter().filter(|(n, m)| *m <= 2 && (*n == 0 || *n <= 16)).collect();
    let (n, m) = *rng.pick(&cfgs);
    let streams = 1 + rng.below(m as u64) as usize;
    let mut nprod = 1 + rng.below(3) as usize;
    let mut es = entries_for(kind);
    // an async send suspended until the consumers have drained everything and parked -- not on the two movable Uni kinds, whose suspended async send
    // makes every other producer wait (C20-D9a/b): there "everybody else finished or parked" never comes
    if kind.has_async_send() && kind != Kind::UniMoveAtomic && kind != Kind::UniMoveFullSync { es.push(Entry::SendAsyncGated); es.push(Entry::SendAsyncGated) }
    let mut per_prod = 1 + rng.below(4) as u32;
    let mut prefill = rng.below(m as u64 + 4) as u32;
    if n > 0 { prefill = prefill.min(n as u32) }
    if (kind.never_rejects() || kind == Kind::UniMoveCrossbeam) && n > 0 {
        // these kinds wait (by documented design: the Arc Multi channels always, the crossbeam Uni channel in its setter-based
        // sends) when a buffer is full: keep the total number of events within the buffer so that never happens
        let cap = n as u32;
        while prefill + per_prod * nprod as u32 > cap {
            if prefill > 0 { prefill -= 1 } else if per_prod > 1 { per_prod -= 1 } else if nprod > 1 { nprod -= 1 } else { break }
        }
    }
    let mut entries: Vec<Entry> = (0..nprod).map(|_| *rng.pick(&es)).collect();
    if gated_only { entries[0] = Entry::SendAsyncGated }
    let predropped = if kind.is_multi() && kind != Kind::MultiMmap && streams < m && rng.chance(1, 3) { 1 + rng.below((m - streams) as u64) as usize } else { 0 };
    let fresh_wakers = rng.chance(1, 3);
    Cfg { kind, n, m, streams, entries, per_prod, prefill, fresh_wakers, strict_wakers: fresh_wakers && rng.chance(1, 2), predropped }
}

pub struct RunOut { pub violation: Option<J>, pub stuck: usize, pub parks: u32, pub wakes: u32, pub hash: u64, pub inconclusive: bool }

pub fn one_run(cfg: &Cfg, rc: &RunCfg, acc: &mut Acc) -> RunOut {
    let total_cap = u32::MAX;
    let Some(ch) = chan::make(cfg.kind, cfg.n, cfg.m, false) else { panic!("no such channel instantiation {:?}", cfg) };
    // the listener set is fixed before anything is sent
    let early: Vec<_> = (0..cfg.predropped).map(|_| ch.create_stream()).collect();
    let mut strms: Vec<_> = (0..cfg.streams).map(|_| ch.create_stream()).collect();
    drop(early);
    if cfg.predropped > 0 { acc.count("runs_whose_listeners_do_not_own_the_first_stream_ids", 1) }
    if rc.lane == Lane::Free { for s in strms.iter_mut() { drive::preregister(s) } }
    let mut accepted: Vec<u64> = Vec::new();
    let mut next_id = 1u64;
    for _ in 0..cfg.prefill.min(total_cap) {
        if drive::send_via(&*ch, Entry::Send, next_id) == chan::SendRes::Ok { accepted.push(next_id) }
        next_id += 1;
    }
    let clogs: Vec<Arc<ConsLog>> = (0..cfg.streams).map(|_| Arc::new(ConsLog::default())).collect();
    let plogs: Vec<Arc<ProdLog>> = cfg.entries.iter().map(|_| Arc::new(ProdLog::default())).collect();
    if cfg.strict_wakers { for l in &clogs { l.only_latest_waker.store(true, SeqCst) } acc.count("runs_in_which_only_the_waker_of_the_most_recent_poll_counts", 1) }
    let mut bodies: Vec<Body> = Vec::new();
    for (s, l) in strms.into_iter().zip(clogs.iter()) { bodies.push(driven_consumer_body(s, cfg.fresh_wakers, Hold::Release, l.clone())) }
    let mut prod_ids: Vec<Vec<u64>> = Vec::new();
    for (e, l) in cfg.entries.iter().zip(plogs.iter()) {
        let ids: Vec<u64> = (0..cfg.per_prod).map(|_| { let i = next_id; next_id += 1; i }).collect();
        prod_ids.push(ids.clone());
        bodies.push(producer_body(ch.clone(), *e, ids, 3, l.clone()));
    }
    let rep = sched::run(rc, bodies);
    acc.account(&rep);
    { let r: u32 = plogs.iter().map(|l| l.resumed.load(std::sync::atomic::Ordering::SeqCst)).sum(); if r > 0 { acc.count("async_sends_whose_setter_stayed_suspended_until_everybody_else_had_finished_or_parked", r as u64) } }
    if rc.trace {
        let notes = sched::NOTES.lock().unwrap().clone();
        eprintln!("--- trace ({} steps): tid@site", rep.trace.len());
        let mut line = String::new();
        for (i, (t, s)) in rep.trace.iter().enumerate() { line.push_str(&format!("{}:t{}@{} ", i, t, sched::site_name(*s))); if line.len() > 150 { eprintln!("{line}"); line.clear() } }
        eprintln!("{line}");
        eprintln!("--- notes: {:?}", notes.iter().map(|n| format!("t{}@{}={:#x}#{}", n.0, sched::site_name(n.1), n.2, n.3)).collect::<Vec<_>>());
    }
    let mut out = RunOut { violation: None, stuck: 0, parks: 0, wakes: 0, hash: rep.sched_hash, inconclusive: rep.inconclusive() };
    if rep.inconclusive() {
        if acc.notes.len() < 20 { acc.notes.push(format!("inconclusive {:?}: {} strategy {}", rep.outcome, cfg.json().to_string(), rc.strategy.describe())) }
        std::mem::forget(ch); return out
    }
    for l in &plogs { accepted.extend(l.accepted.lock().unwrap().iter()) }
    out.parks = clogs.iter().map(|l| l.parks.load(std::sync::atomic::Ordering::SeqCst)).sum();
    if cfg.strict_wakers { acc.count("polls_nobody_asked_for(with_a_new_waker)", clogs.iter().map(|l| l.spurious_polls.load(SeqCst) as u64).sum()); acc.count("invocations_of_a_replaced_waker(ignored)", clogs.iter().map(|l| l.stale_wakes.load(SeqCst) as u64).sum()) }
    out.wakes = clogs.iter().map(|l| l.wakes.load(std::sync::atomic::Ordering::SeqCst)).sum();
    let mut problems: Vec<String> = ch.take_problems();
    for (t, p) in &rep.panics { problems.push(format!("thread t{t} panicked: {p}")) }
    // who got what
    let mut missing: Vec<(usize, u64)> = Vec::new();
    if cfg.kind.is_multi() {
        for (i, l) in clogs.iter().enumerate() {
            let got = l.ids();
            for a in &accepted { if !got.contains(a) { missing.push((i, *a)) } }
        }
    } else {
        let got: Vec<u64> = clogs.iter().flat_map(|l| l.ids()).collect();
        for a in &accepted { if !got.contains(a) { missing.push((usize::MAX, *a)) } }
    }
    let stuck_state = matches!(rep.outcome, Outcome::Quiescent { .. });
    out.stuck = missing.len();
    let keep_alive = ch.clone();
    if let Outcome::Stall { .. } = rep.outcome { problems.push(format!("run stalled: {}", rep.outcome_json().to_string())) }
    if (!missing.is_empty() && stuck_state) || !problems.is_empty() {
        let notes = sched::take_notes();
        let stream_ids: Vec<u64> = clogs.iter().map(|l| l.stream_id.load(SeqCst) as u64).collect();
        // One causal signature per stream that is left with undelivered events, computed for the ROOT event: the stuck event
        // that was published first. (Later events are sent into a non-empty buffer and rely, by design, on the wake-up of the
        // first one, so they are consequences, not causes.)
        let mut sigs: Vec<J> = Vec::new();
        let mut groups: Vec<usize> = missing.iter().map(|m| m.0).collect();
        groups.sort(); groups.dedup();
        for g in groups {
            let streams_concerned: Vec<usize> = if g == usize::MAX { (0..cfg.streams).collect() } else { vec![g] };
            // (id, producer, call stamp, return stamp, publication stamp, sampled length, wakes)
            let mut cands: Vec<(u64, Option<usize>, u64, u64, u64, Option<u64>, Vec<u64>)> = Vec::new();
            for (_, id) in missing.iter().filter(|m| m.0 == g) {
                let prod = prod_ids.iter().position(|ids| ids.contains(id));
                let mut rec = (*id, prod, 0u64, 0u64, 0u64, None, Vec::new());
                if let Some(p) = prod {
                    let ptid = plogs[p].tid.load(SeqCst) as usize;
                    if let Some((_, t0, t1, _)) = plogs[p].calls.lock().unwrap().iter().rev().find(|c| c.0 == *id && c.3).copied() {
                        rec.2 = t0; rec.3 = t1; rec.4 = t1;
                        for n in notes.iter().filter(|n| n.0 == ptid && n.3 > t0 && n.3 < t1) {
                            if n.1 == rv::SM_WAKE_BEFORE_READ { rec.6.push(n.2) }
                            if n.1 == rv::UNI_AFTER_PUBLISH_BEFORE_WAKE || n.1 == rv::UNI_XB_BETWEEN_LEN_AND_SEND { rec.5 = Some(n.2); rec.4 = n.3 }
                            if (n.1 == rv::MULTI_LEN_AFTER || n.1 == rv::MULTI_XB_BETWEEN_LEN_AND_SEND) && streams_concerned.iter().any(|s| stream_ids[*s] == n.2 >> 32) { rec.5 = Some(n.2 & 0xFFFF_FFFF); rec.4 = n.3 }
                        }
                    }
                }
                cands.push(rec);
            }
            // prefill events (no producer thread) come first, then by the start of the send call: slots are taken in call order, and a
            // later send finds the earlier one's slot already counted in its sampled length -- so the earliest stuck send is the cause
            // (ordering by the wake-decision stamp would misattribute when a producer is preempted between publication and decision)
            cands.sort_by_key(|c| (c.1.is_some(), c.2));
            let (id, prod, t0, _t1, _tp, len, wakes) = cands[0].clone();
            let entry = prod.map(|p| cfg.entries[p].name()).unwrap_or("send(prefill)");
            let mut sig = J::obj()
                .with("anomaly", J::s("lost_wakeup"))
                .with("kind", J::s(cfg.kind.name()))
                .with("M", J::i(cfg.m as i64))
                .with("streams", J::i(cfg.streams as i64))
                .with("entry", J::s(entry));
            if prod.is_some() && t0 > 0 {
                let wake_to_stuck = streams_concerned.iter().any(|s| wakes.contains(&stream_ids[*s]));
                let woke_absent = wakes.iter().any(|w| !stream_ids.contains(w));
                // was the send already in progress when the consumer's last (empty) poll returned?
                let overlap = streams_concerned.iter().any(|s| clogs[*s].empties.lock().unwrap().last().map(|e| t0 < e.1).unwrap_or(false));
                sig.set("wake_attempted_to_stuck_stream", J::Bool(wake_to_stuck));
                sig.set("woke_absent_stream", J::Bool(woke_absent));
                sig.set("send_overlapped_last_empty_poll", J::Bool(overlap));
                // a wake-up was delivered, the woken consumer polled and still found nothing: did that poll race another
                // consumer's (empty) poll? -- the ring lets a consumer "overshoot" past a slot another consumer is still holding
                if wake_to_stuck && g == usize::MAX && cfg.streams >= 2 {
                    let ptid = plogs[prod.unwrap()].tid.load(SeqCst) as usize;
                    let mut raced = false;
                    for n in notes.iter().filter(|n| n.0 == ptid && n.1 == rv::SM_WAKE_BEFORE_READ && n.3 > t0) {
                        if let Some(ci) = stream_ids.iter().position(|s| *s == n.2) {
                            let mine = clogs[ci].empties.lock().unwrap().iter().find(|e| e.1 > n.3).copied();
                            if let Some((a, b)) = mine {
                                for (cj, other) in clogs.iter().enumerate() {
                                    if cj != ci && other.empties.lock().unwrap().iter().any(|(c, d)| *c < b && *d > a) { raced = true }
                                }
                            }
                        }
                    }
                    sig.set("woken_poll_raced_other_poll", J::Bool(raced));
                }
                match len { Some(l) => { sig.set("len_sampled", J::i(l as i64)); sig.set("len_sampled_minus_M", J::i(l as i64 - cfg.m as i64)); } None => { sig.set("len_sampled", J::Null); } }
            }
            sig.set("root_event", J::i(id as i64));
            if !sigs.iter().any(|x: &J| x.to_string() == sig.to_string()) { sigs.push(sig) }
        }
        for p in &problems { sigs.push(J::obj().with("anomaly", J::s("other")).with("kind", J::s(cfg.kind.name())).with("what", J::s(p))) }
        let what = if !problems.is_empty() { problems.join("; ") } else {
            format!("quiescent state (all producers returned, every consumer parked, no wake pending) with {} accepted event(s) undelivered: {:?}", missing.len(), missing.iter().map(|m| m.1).collect::<Vec<_>>())
        };
        out.violation = Some(J::obj()
            .with("what", J::s(what))
            .with("sigs", J::Arr(sigs))
            .with("config", cfg.json())
            .with("strategy", J::s(rc.strategy.describe()))
            .with("outcome", rep.outcome_json())
            .with("accepted", ids_json(&accepted))
            .with("yielded", J::Arr(clogs.iter().map(|l| ids_json(&l.ids())).collect()))
            .with("pending_items_count", J::i(ch.pending() as i64)));
    }
    if out.stuck > 0 { std::mem::forget(keep_alive) }
    out
}

pub fn run(args: &Args, acc: &mut Acc) {
    let mut run = 0u64;
    if let Some(rp) = &args.replay {
        let seed = rp.get("run_seed").and_then(|j| j.as_i64()).unwrap_or(0) as u64;
        single(args, acc, seed, true);
        return;
    }
    while acc.more() {
        let seed = args.run_seed(run);
        single(args, acc, seed, false);
        run += 1;
    }
}

fn single(args: &Args, acc: &mut Acc, seed: u64, verbose: bool) {
    let mut rng = Rng::new(seed);
    let cfg = draw_cfg(&mut rng, args.only.as_deref(), args.get("entry") == Some("async_gated"));
    let nthreads = cfg.streams + cfg.entries.len();
    let mut rc = match args.lane {
        Lane::Ser => RunCfg::ser(seed, draw_strategy(&mut rng, nthreads, PAUSE_SITES, 120)),
        Lane::Free => RunCfg::free(seed, rng.below(3) as u8),
    };
    rc.trace = verbose && args.get("trace").is_some();
    let out = one_run(&cfg, &rc, acc);
    acc.count(&format!("runs[{}]", cfg.kind.name()), 1);
    acc.count("consumer_parks", out.parks as u64);
    acc.count("wakes_received", out.wakes as u64);
    if out.inconclusive { return }
    // non-trivial = at least one consumer really parked and was woken again, or the run ended stuck
    if out.parks > cfg.streams as u32 || out.stuck > 0 { acc.nontrivial(mix(out.hash, cfg.kind as u64 * 131 + cfg.n as u64 * 17 + cfg.m as u64)) }
    acc.sample(3, || J::obj().with("config", cfg.json()).with("strategy", J::s(rc.strategy.describe())).with("parks", J::i(out.parks)).with("wakes", J::i(out.wakes)).with("stuck_events", J::i(out.stuck as i64)));
    if let Some(mut v) = out.violation {
        v.set("run_seed", J::i((seed & 0x7FFF_FFFF_FFFF_FFFF) as i64));
        v.set("run_seed_hex", J::s(hex(seed)));
        v.set("lane", J::s(if args.lane == Lane::Ser { "ser" } else { "free" }));
        if verbose { eprintln!("{}", v.to_string()) }
        acc.violation(v);
    }
}
