//! C18 -- the stand-alone ogre_std stacks and non-blocking queues are linearizable bounded LIFO / FIFO containers.
//!
//! Short concurrent histories (2-4 threads, <= 12 operations each, capacity 2..8) of push/pop (enqueue/dequeue) are checked by
//! WGL against the bounded LIFO / FIFO model; long free-running multi-core runs are checked for conservation (nothing lost,
//! nothing returned twice, nothing returned that was not pushed) and, for the queues, per-producer order per consumer.
//! The atomic-flag stack and the two queues also run under the serialized scheduler (sites inside their critical sections);
//! the parking-lot stack has no site inside its lock and runs free only.

use crate::common::{draw_strategy, file_violation, run_loop, Acc, Args};
use crate::drive::stamp;
use crate::json::J;
use crate::lin::{self, Ev, Fifo, Lifo, QOp, SOp, Verdict};
use crate::sched::{self, mix, Body, Lane, Outcome, Rng, RunCfg};
use reactive_mutiny::ogre_std::{
    ogre_queues::{atomic::NonBlockingQueue as AtomicQ, full_sync::NonBlockingQueue as FullSyncQ, OgreQueue},
    ogre_stacks::{non_blocking_atomic_stack::Stack as AtomicStack, non_blocking_parking_lot_stack::Stack as PlStack, OgreStack},
};
use reactive_mutiny::verif as rv;
use std::collections::{HashMap, HashSet};
use std::sync::{Arc, Mutex};

pub trait Cont: Send + Sync { fn put(&self, v: u64) -> bool; fn take(&self) -> Option<u64>; fn len(&self) -> usize; }
struct S<T>(T);
unsafe impl<T> Send for S<T> {}
unsafe impl<T> Sync for S<T> {}
impl<const N: usize> Cont for S<AtomicStack<u64, N, false, false>> { fn put(&self, v: u64) -> bool { self.0.push(v) } fn take(&self) -> Option<u64> { self.0.pop() } fn len(&self) -> usize { self.0.len() } }
impl<const N: usize> Cont for S<PlStack<u64, N, false, false>> { fn put(&self, v: u64) -> bool { self.0.push(v) } fn take(&self) -> Option<u64> { self.0.pop() } fn len(&self) -> usize { self.0.len() } }
impl<const N: usize> Cont for S<AtomicQ<u64, N, 0>> { fn put(&self, v: u64) -> bool { self.0.enqueue(v).is_none() } fn take(&self) -> Option<u64> { self.0.dequeue() } fn len(&self) -> usize { self.0.len() } }
impl<const N: usize> Cont for S<FullSyncQ<u64, N, 0>> { fn put(&self, v: u64) -> bool { self.0.enqueue(v).is_none() } fn take(&self) -> Option<u64> { self.0.dequeue() } fn len(&self) -> usize { self.0.len() } }

/// a 192-byte element whose 24 words all carry the value: a copy torn between two pushes (or overwritten while being copied out) is recognisable
#[derive(Clone, Copy, Debug)]
pub struct Wide { w: [u64; 24] }
impl Wide {
    fn of(v: u64) -> Self { Wide { w: [v; 24] } }
    /// the value, or a value nobody ever put (flagged by the conservation / linearizability check) when the words disagree
    fn value(&self) -> u64 { if self.w.iter().all(|x| *x == self.w[0]) { self.w[0] } else { 0xBAD0_0000_0000_0000 | (self.w[0] & 0xFFFF) << 16 | (self.w[23] & 0xFFFF) } }
}
impl<const N: usize> Cont for S<AtomicStack<Wide, N, false, false>> { fn put(&self, v: u64) -> bool { self.0.push(Wide::of(v)) } fn take(&self) -> Option<u64> { self.0.pop().map(|w| w.value()) } fn len(&self) -> usize { self.0.len() } }
impl<const N: usize> Cont for S<PlStack<Wide, N, false, false>> { fn put(&self, v: u64) -> bool { self.0.push(Wide::of(v)) } fn take(&self) -> Option<u64> { self.0.pop().map(|w| w.value()) } fn len(&self) -> usize { self.0.len() } }
impl<const N: usize> Cont for S<AtomicQ<Wide, N, 0>> { fn put(&self, v: u64) -> bool { self.0.enqueue(Wide::of(v)).is_none() } fn take(&self) -> Option<u64> { self.0.dequeue().map(|w| w.value()) } fn len(&self) -> usize { self.0.len() } }
impl<const N: usize> Cont for S<FullSyncQ<Wide, N, 0>> { fn put(&self, v: u64) -> bool { self.0.enqueue(Wide::of(v)).is_none() } fn take(&self) -> Option<u64> { self.0.dequeue().map(|w| w.value()) } fn len(&self) -> usize { self.0.len() } }

pub const TARGETS: [&str; 4] = ["stack.atomic_flag", "stack.parking_lot", "queue.atomic", "queue.full_sync"];

fn make(target: &str, n: usize, wide: bool) -> Arc<dyn Cont> {
    if wide {
        macro_rules! w { ($($N:literal),*) => { match (target, n) {
            $( ("stack.atomic_flag", $N) => Arc::new(S(AtomicStack::<Wide, $N, false, false>::new("rmv".into()))) as Arc<dyn Cont>,
               ("stack.parking_lot", $N) => Arc::new(S(PlStack::<Wide, $N, false, false>::new("rmv".into()))),
               ("queue.atomic", $N) => Arc::new(S(AtomicQ::<Wide, $N, 0>::new("rmv"))),
               ("queue.full_sync", $N) => Arc::new(S(FullSyncQ::<Wide, $N, 0>::new("rmv"))), )*
            _ => panic!("no such container") } } }
        return w!(2, 4, 8)
    }
    macro_rules! m { ($($N:literal),*) => { match (target, n) {
        $( ("stack.atomic_flag", $N) => Arc::new(S(AtomicStack::<u64, $N, false, false>::new("rmv".into()))) as Arc<dyn Cont>,
           ("stack.parking_lot", $N) => Arc::new(S(PlStack::<u64, $N, false, false>::new("rmv".into()))),
           ("queue.atomic", $N) => Arc::new(S(AtomicQ::<u64, $N, 0>::new("rmv"))),
           ("queue.full_sync", $N) => Arc::new(S(FullSyncQ::<u64, $N, 0>::new("rmv"))), )*
        _ => panic!("no such container") } } }
    m!(2, 4, 8)
}

#[derive(Clone, Copy, Debug, PartialEq, Eq)]
pub enum Step { Put, Take, PutUntilFull, TakeUntilEmpty }

#[derive(Clone, Debug)]
pub struct Cfg { pub target: &'static str, pub n: usize, pub scripts: Vec<Vec<Step>>, pub long: u32, /** 192-byte elements instead of 8-byte ones */ pub wide: bool }
impl Cfg { pub fn json(&self) -> J { J::obj().with("target", J::s(self.target)).with("capacity", J::i(self.n as i64)).with("element_bytes", J::i(if self.wide { 192 } else { 8 })).with("scripts", J::Arr(self.scripts.iter().map(|s| J::s(format!("{:?}", s))).collect())).with("long_ops_per_thread", J::i(self.long as i64)) } }

pub const PAUSE_SITES: &[u32] = &[rv::STACK_LOCKED, rv::STACK_BEFORE_HEAD_UPDATE, rv::STACK_BEFORE_RELEASE, rv::AM_LEAK_AFTER_RESERVE, rv::AM_PUBLISH_BEFORE, rv::AM_CONSUME_AFTER_RESERVE, rv::AM_CONSUME_AFTER_READ,
    rv::AM_RELEASE_AFTER, rv::ALLOC_AFTER_DEQUEUE, rv::DEALLOC_AFTER_DROP, rv::FS_LEAK_LOCKED, rv::FS_CONSUME_LOCKED, rv::FS_CONSUME_AFTER_READ, rv::FS_PUBLISH_BEFORE];

pub fn draw_cfg(rng: &mut Rng, only: Option<&str>, lane: Lane, long: bool) -> Cfg {
    let targets: Vec<&'static str> = TARGETS.iter().copied().filter(|t| only.map(|o| o == *t).unwrap_or(true) && !(lane == Lane::Ser && *t == "stack.parking_lot")).collect();
    let target = *rng.pick(&targets);
    let n = *rng.pick(&[2usize, 4, 8]);
    let nthreads = 2 + rng.below(3) as usize;
    let mut scripts = Vec::new();
    for _ in 0..nthreads {
        let mut s = Vec::new();
        if !long {
            if rng.chance(1, 5) { s.push(Step::PutUntilFull); s.push(Step::TakeUntilEmpty) }
            else { for _ in 0..2 + rng.below(8) { s.push(if rng.chance(1, 2) { Step::Put } else { Step::Take }) } }
        }
        scripts.push(s);
    }
    Cfg { target, n, scripts, long: if long { 50_000 + rng.below(400_000) as u32 } else { 0 }, wide: rng.chance(1, 3) }
}

#[derive(Clone, Debug)]
enum Rec { PutOk(u64), PutFull, TakeSome(u64), TakeNone }
type Hist = Arc<Mutex<Vec<(u32, u64, u64, Rec)>>>;

fn body(c: Arc<dyn Cont>, script: Vec<Step>, long: u32, tid: u32, seed: u64, cap: usize, hist: Hist, taken_long: Arc<Mutex<Vec<(u32, Vec<u64>)>>>, put_long: Arc<Mutex<Vec<u64>>>) -> Body {
    Box::new(move || {
        let mut local = Vec::new();
        let mut next = 1u64;
        let put = |next: &mut u64, local: &mut Vec<(u32, u64, u64, Rec)>| -> bool { let v = ((tid as u64 + 1) << 32) | *next; *next += 1; let a = stamp(); let ok = c.put(v); let b = stamp(); local.push((tid, a, b, if ok { Rec::PutOk(v) } else { Rec::PutFull })); sched::op_done(); ok };
        let take = |local: &mut Vec<(u32, u64, u64, Rec)>| -> bool { let a = stamp(); let r = c.take(); let b = stamp(); let got = r.is_some(); local.push((tid, a, b, match r { Some(v) => Rec::TakeSome(v), None => Rec::TakeNone })); sched::op_done(); got };
        for s in script {
            match s {
                Step::Put => { put(&mut next, &mut local); }
                Step::Take => { take(&mut local); }
                Step::PutUntilFull => { let mut g = 0; while put(&mut next, &mut local) && g < cap + 2 { g += 1 } }
                Step::TakeUntilEmpty => { let mut g = 0; while take(&mut local) && g < cap + 4 { g += 1 } }
            }
        }
        if long > 0 {
            let mut rng = Rng::new(seed ^ ((tid as u64) << 33));
            let (mut mine_put, mut mine_taken) = (Vec::new(), Vec::new());
            for _ in 0..long {
                if rng.chance(1, 2) { let v = ((tid as u64 + 1) << 32) | next; next += 1; if c.put(v) { mine_put.push(v) } }
                else if let Some(v) = c.take() { mine_taken.push(v) }
            }
            put_long.lock().unwrap().extend(mine_put);
            taken_long.lock().unwrap().push((tid, mine_taken));
        }
        hist.lock().unwrap().extend(local);
    })
}

pub fn one_run(cfg: &Cfg, rc: &RunCfg, acc: &mut Acc) -> (Option<J>, u64, bool) {
    let c = make(cfg.target, cfg.n, cfg.wide);
    if cfg.wide { acc.count("runs_with_192_byte_elements", 1) }
    let hist: Hist = Arc::new(Mutex::new(Vec::new()));
    let taken_long = Arc::new(Mutex::new(Vec::new())); let put_long = Arc::new(Mutex::new(Vec::new()));
    let bodies: Vec<Body> = cfg.scripts.iter().enumerate().map(|(t, s)| body(c.clone(), s.clone(), cfg.long, t as u32, rc.seed, cfg.n, hist.clone(), taken_long.clone(), put_long.clone())).collect();
    let rep = sched::run(rc, bodies);
    acc.account(&rep);
    if rep.inconclusive() { std::mem::forget(c); return (None, rep.sched_hash, true) }
    let is_stack = cfg.target.starts_with("stack");
    let mut probs: Vec<(String, String)> = Vec::new();
    for (t, p) in &rep.panics { probs.push(("panic".into(), format!("thread t{t} panicked: {p}"))) }
    if let Outcome::Stall { .. } = rep.outcome { probs.push(("stall".into(), format!("run stalled: {}", rep.outcome_json().to_string()))) }
    let mut h = hist.lock().unwrap().clone();
    h.sort_by_key(|e| e.1);
    let mut hh = cfg.n as u64 ^ rc.seed;
    let mut hist_json: Vec<J> = Vec::new();
    if probs.is_empty() && rep.outcome == Outcome::Done && !h.is_empty() {
        hh = cfg.n as u64 + cfg.target.len() as u64 * 100;
        for e in &h { hh = mix(hh, (e.0 as u64) << 50 ^ match &e.3 { Rec::PutOk(v) => *v, Rec::PutFull => 1 << 48, Rec::TakeSome(v) => 2 << 48 | *v, Rec::TakeNone => 3 << 48 }) }
        acc.count("operations", h.len() as u64);
        acc.count("answers_full", h.iter().filter(|e| matches!(e.3, Rec::PutFull)).count() as u64); acc.count("answers_empty", h.iter().filter(|e| matches!(e.3, Rec::TakeNone)).count() as u64);
        let verdict = if is_stack {
            let evs: Vec<Ev<SOp>> = h.iter().map(|e| Ev { thread: e.0, call: e.1, ret: e.2, op: match &e.3 { Rec::PutOk(v) => SOp::PushOk(*v), Rec::PutFull => SOp::PushFull, Rec::TakeSome(v) => SOp::PopSome(*v), Rec::TakeNone => SOp::PopNone } }).collect();
            hist_json = evs.iter().map(lin::ev_json).collect();
            (lin::check(Lifo { s: Vec::new(), cap: cfg.n as u32 }, &evs, 2_000_000), None)
        } else {
            let mut evs: Vec<Ev<QOp>> = h.iter().map(|e| Ev { thread: e.0, call: e.1, ret: e.2, op: match &e.3 { Rec::PutOk(v) => QOp::SendOk(*v), Rec::PutFull => QOp::SendFull { slack: 0 }, Rec::TakeSome(v) => QOp::RecvSome(*v), Rec::TakeNone => QOp::RecvNone { excusable: false } } }).collect();
            // a dequeue in progress still occupies its slot; an enqueue in progress may already have taken one
            let slack = lin::overlaps(&evs, |o| matches!(o, QOp::SendOk(_) | QOp::SendFull { .. } | QOp::RecvSome(_)));
            for (e, s) in evs.iter_mut().zip(slack) { if let QOp::SendFull { slack } = &mut e.op { *slack = s } }
            hist_json = evs.iter().map(lin::ev_json).collect();
            let v = lin::check(Fifo::new(cfg.n as u32, false), &evs, 2_000_000);
            let relaxed = if matches!(v, Verdict::NotLinearizable { .. }) {
                let mut e2 = evs.clone();
                for i in 0..e2.len() { if let QOp::RecvNone { .. } = e2[i].op { let (c0, r0, t0) = (e2[i].call, e2[i].ret, e2[i].thread); let ex = evs.iter().any(|o| o.thread != t0 && matches!(o.op, QOp::RecvNone { .. }) && o.call < r0 && c0 < o.ret); e2[i].op = QOp::RecvNone { excusable: ex } } }
                let mut m = Fifo::new(cfg.n as u32, false); m.relaxed_empty = true;
                Some(matches!(lin::check(m, &e2, 2_000_000), Verdict::Linearizable { .. }))
            } else { None };
            (v, relaxed)
        };
        match verdict {
            (Verdict::Linearizable { states }, _) => { acc.count("wgl_states", states); acc.count("histories_linearizable", 1) }
            (Verdict::Budget { .. }, _) => { acc.count("histories_checker_budget_exhausted(inconclusive)", 1); acc.inconclusive += 1 }
            (Verdict::NotLinearizable { longest, .. }, Some(true)) => { let _ = longest; probs.push(("spurious_empty_during_concurrent_empty_dequeue".into(), format!("a dequeue answered 'empty' although an enqueued element was in the queue during the whole call (another thread's empty-handed dequeue was in progress); otherwise the history of {} operations is explained by a bounded FIFO of capacity {}", h.len(), cfg.n))) }
            (Verdict::NotLinearizable { longest, .. }, _) => probs.push(("not_linearizable".into(), format!("no sequential bounded {} of capacity {} explains this history of {} operations (longest explainable prefix: {})", if is_stack { "LIFO stack" } else { "FIFO queue" }, cfg.n, h.len(), longest.len()))),
        }
    }
    // long runs: conservation (+ per-producer order per consumer for the queues)
    if cfg.long > 0 && probs.is_empty() && rep.outcome == Outcome::Done {
        let mut rest = Vec::new(); while let Some(v) = c.take() { rest.push(v); if rest.len() > 64 { break } }
        let put: Vec<u64> = put_long.lock().unwrap().clone();
        let put_set: HashSet<u64> = put.iter().copied().collect();
        let mut seen: HashSet<u64> = HashSet::new();
        let taken = taken_long.lock().unwrap();
        for (t, vs) in taken.iter() {
            let mut last: HashMap<u64, u64> = HashMap::new();
            for v in vs {
                if !put_set.contains(v) { probs.push(("never_pushed".into(), format!("thread {t} took {v:#x}, which nobody put"))) }
                if !seen.insert(*v) { probs.push(("duplicate".into(), format!("element {v:#x} was returned twice"))) }
                if !is_stack { let (p, k) = (v >> 32, v & 0xFFFF_FFFF); if let Some(prev) = last.get(&p) { if *prev >= k { probs.push(("order".into(), format!("thread {t} dequeued element #{k} of producer {p} after #{prev}"))) } } last.insert(p, k); }
                if probs.len() > 6 { break }
            }
        }
        for v in &rest { if !seen.insert(*v) { probs.push(("duplicate".into(), format!("element {v:#x} was returned twice (final drain)"))) } }
        if rest.len() <= 64 { let lost = put.iter().filter(|v| !seen.contains(v)).count(); if lost > 0 { probs.push(("lost".into(), format!("{lost} element(s) that were put were never returned, not even by the final drain"))) } }
        acc.count("long_run_elements", put.len() as u64);
        hh = mix(rc.seed, put.len() as u64);
    }
    let v = if probs.is_empty() { None } else {
        probs.truncate(6);
        let mut sigs: Vec<J> = Vec::new();
        for (a, _) in &probs { let s = J::obj().with("anomaly", J::s(a)).with("target", J::s(cfg.target)); if !sigs.iter().any(|x| x.to_string() == s.to_string()) { sigs.push(s) } }
        Some(J::obj().with("what", J::s(probs.iter().map(|p| p.1.clone()).collect::<Vec<_>>().join("; "))).with("sigs", J::Arr(sigs)).with("config", cfg.json()).with("strategy", J::s(rc.strategy.describe()))
            .with("outcome", rep.outcome_json()).with("history", J::Arr(hist_json.iter().take(80).cloned().collect())))
    };
    if acc.samples.len() < 2 && hist_json.len() >= 6 { acc.samples.push(J::obj().with("target", J::s(cfg.target)).with("capacity", J::i(cfg.n as i64)).with("history", J::Arr(hist_json.clone()))) }
    (v, hh, false)
}

pub fn run(args: &Args, acc: &mut Acc) { run_loop(args, acc, single) }

fn single(args: &Args, acc: &mut Acc, seed: u64, verbose: bool) {
    let mut rng = Rng::new(seed);
    let long = args.get("workload") == Some("long");
    let cfg = draw_cfg(&mut rng, args.only.as_deref(), args.lane, long);
    let mut rc = match args.lane { Lane::Ser => RunCfg::ser(seed, draw_strategy(&mut rng, cfg.scripts.len(), PAUSE_SITES, 200)), Lane::Free => RunCfg::free(seed, if long { 0 } else { rng.below(3) as u8 }) };
    rc.trace = verbose && args.get("trace").is_some();
    let (violation, hash, inconclusive) = one_run(&cfg, &rc, acc);
    acc.count(&format!("runs[{}{}]", cfg.target, if long { ",long" } else { "" }), 1);
    if inconclusive { return }
    acc.nontrivial(hash);
    if let Some(v) = violation { file_violation(args, acc, seed, verbose, v) }
}
