//! C19 -- metric counters lose no update and expose a consistent (count, average) pair.
//!
//! The incremental average is reached through the public field `StreamExecutor::ok_events_avg_future_duration`.
//! Phase "single": one writer records 2k-1 as its k-th value, so after k updates the mean is exactly k and every probe must
//! satisfy avg ~ count (a torn / mixed pair shows at once). Phase "multi": 2-3 writers take a global ticket t and record 2t-1
//! (or all record one constant, e.g. the -1.0 "no timing" sentinel); a probe (m, avg) must satisfy m <= avg <= 2T-m with T the
//! tickets issued when the probe returned; the final count must equal the number of `inc` calls and the final average the
//! arithmetic mean. A reader thread checks that the count never decreases.
//! "Count origin" (1 run in 3): before any thread starts, the metric's 64-bit cell is preset to (c0, a0) -- as if c0 measurements of mean a0 had
//! been recorded before -- with c0 next to 2^24 (where an f32 can no longer represent count + 1), next to 2^31, next to (but below) the documented
//! u32::MAX reset, or anywhere; all writers then record one constant c: the count must end at exactly c0 + number of inc calls, never decrease,
//! and every average (probed or final) must be the weighted mean (c0*a0 + k*c)/(c0 + k) for the probed count c0 + k.

use crate::common::{draw_strategy, file_violation, run_loop, Acc, Args};
use crate::json::J;
use crate::sched::{self, mix, Body, Lane, Outcome, Rng, RunCfg};
use reactive_mutiny::stream_executor::StreamExecutor;
use reactive_mutiny::verif as rv;
use std::sync::{atomic::{AtomicBool, AtomicU64, Ordering::SeqCst}, Arc, Mutex};

#[derive(Clone, Copy, Debug, PartialEq, Eq)]
pub enum Mode { Single, Tickets, Constant(i32),
    /// writer 0 records c (so its measurement often equals the current average), the other writers record d
    TwoConstants(i32, i32) }

#[derive(Clone, Debug)]
pub struct Cfg { pub mode: Mode, pub writers: usize, pub per_writer: u32, pub readers: usize, /** (count, average) the metric starts from */ pub origin: Option<(u32, i32)> }
impl Cfg { pub fn json(&self) -> J { J::obj().with("mode", J::s(format!("{:?}", self.mode))).with("writers", J::i(self.writers as i64)).with("measurements_per_writer", J::i(self.per_writer as i64)).with("readers", J::i(self.readers as i64))
    .with("count_origin", match self.origin { Some((c, a)) => J::s(format!("count {c} (2^24{:+}, 2^31{:+}), average {a}", c as i64 - (1 << 24), c as i64 - (1i64 << 31))), None => J::s("0") }) } }

const TOL: f64 = 2e-3;
fn close(a: f64, b: f64) -> bool { (a - b).abs() <= TOL * b.abs().max(1.0) }

pub fn one_run(cfg: &Cfg, rc: &RunCfg, acc: &mut Acc) -> (Option<J>, u64, bool) {
    let ex = StreamExecutor::<0>::new("rmv-c19");
    let (c0, a0) = cfg.origin.map(|(c, a)| (c as u64, a as f64)).unwrap_or((0, 0.0));
    if let Some((c, a)) = cfg.origin {
        // the metric is one 64-bit atomic cell: count in the low half, the f32 average in the high half (what `probe()` decodes)
        let cell = &ex.ok_events_avg_future_duration as *const _ as *const AtomicU64;
        unsafe { (*cell).store((c as u64) | (((a as f32).to_bits() as u64) << 32), SeqCst) };
        let (pc, pa) = ex.ok_events_avg_future_duration.probe();
        assert!(pc == c && pa == a as f32, "harness: the count origin was not installed as probe() decodes it");
    }
    let tickets = Arc::new(AtomicU64::new(0));
    let writers_done = Arc::new(AtomicU64::new(0));
    let stop = Arc::new(AtomicBool::new(false));
    let probs: Arc<Mutex<Vec<(String, String)>>> = Arc::new(Mutex::new(Vec::new()));
    let probes = Arc::new(AtomicU64::new(0));
    let mut bodies: Vec<Body> = Vec::new();
    for _w in 0..cfg.writers {
        let (ex, tickets, wd, cfg2) = (ex.clone(), tickets.clone(), writers_done.clone(), cfg.clone());
        let _w = _w;
        bodies.push(Box::new(move || {
            for k in 1..=cfg2.per_writer as u64 {
                let v = match cfg2.mode { Mode::Single => (2 * k - 1) as f32, Mode::Tickets => { let t = tickets.fetch_add(1, SeqCst) + 1; (2 * t - 1) as f32 } Mode::Constant(c) => { tickets.fetch_add(1, SeqCst); c as f32 } Mode::TwoConstants(c, d) => { tickets.fetch_add(1, SeqCst); if _w == 0 { c as f32 } else { d as f32 } } };
                if cfg2.mode == Mode::Single { tickets.fetch_add(1, SeqCst); }
                ex.ok_events_avg_future_duration.inc(v);
                sched::op_done();
            }
            wd.fetch_add(1, SeqCst);
        }));
    }
    for _r in 0..cfg.readers {
        let (ex, tickets, wd, cfg2, probs, probes) = (ex.clone(), tickets.clone(), writers_done.clone(), cfg.clone(), probs.clone(), probes.clone());
        bodies.push(Box::new(move || {
            let mut last = 0u32;
            loop {
                let fin = wd.load(SeqCst) == cfg2.writers as u64;
                let t_before = tickets.load(SeqCst);
                let (m, avg) = ex.ok_events_avg_future_duration.probe();
                let t_after = tickets.load(SeqCst);
                probes.fetch_add(1, SeqCst);
                let mut p = |a: &str, s: String| { let mut v = probs.lock().unwrap(); if v.len() < 8 { v.push((a.into(), s)) } };
                if m < last { p("count_decreased", format!("a reader saw the count go from {last} to {m}")) }
                last = m;
                if (m as u64) < c0 { p("count_decreased", format!("a reader saw the count {m}, below the {c0} it started from")) }
                if m as u64 > c0 + t_after { p("count_ahead", format!("count {m} with only {c0} + {t_after} measurements started")) }
                let _ = t_before;
                if m > 0 {
                    let (m64, a) = (m as f64, avg as f64);
                    match cfg2.mode {
                        Mode::Single => if !close(a, m64) { p("inconsistent_pair", format!("probe returned count {m} with average {avg}: after {m} updates (values 1,3,5,...) the mean is exactly {m}")) },
                        Mode::Tickets => { let hi = 2.0 * t_after as f64 - m64; if a < m64 * (1.0 - TOL) - 1e-3 || a > hi * (1.0 + TOL) + 1e-3 { p("inconsistent_pair", format!("probe returned count {m} with average {avg}: no {m} of the {t_after} values 1,3,..,{} have that mean (it lies in [{m}, {hi}])", 2 * t_after - 1)) } }
                        Mode::TwoConstants(c, d) => {
                            // (m, avg) belongs together iff avg is the mean of i measurements of c and m - i of d for an integer 0 <= i <= m
                            let (lo, hi) = ((c.min(d)) as f64, (c.max(d)) as f64);
                            if a < lo - 1e-3 * lo.abs().max(1.0) || a > hi + 1e-3 * hi.abs().max(1.0) { p("inconsistent_pair", format!("probe returned count {m} with average {avg}: every measurement was {c} or {d}")) }
                            else if m <= 2000 { let i = m64 * (a - d as f64) / (c as f64 - d as f64); if (i - i.round()).abs() > 0.02 + 2e-4 * m64 { p("inconsistent_pair", format!("probe returned count {m} with average {avg}: no {m} measurements out of {{{c}, {d}}} have that mean (it would take {i:.3} times {c})")) } }
                        }
                        Mode::Constant(c) if cfg2.origin.is_some() => { let k = m64 - c0 as f64; let want = (c0 as f64 * a0 + k * c as f64) / m64;
                            // (f32: each update may round by one unit in the last place of the average)
                            if k >= 0.0 && (a - want).abs() > 5e-3 * want.abs().max(1.0) + k * 2.4e-7 * a0.abs().max((c as f64).abs()).max(1.0) { p("inconsistent_pair", format!("probe returned count {m} with average {avg}: starting from count {c0} / average {a0}, {k} measurements of {c} give {want}")) } }
                        Mode::Constant(c) => if !close(a, c as f64) { p("inconsistent_pair", format!("probe returned count {m} with average {avg}, every measurement was {c}")) },
                    }
                }
                if fin { break }
                sched::spin();
            }
        }));
    }
    let rep = sched::run(rc, bodies);
    acc.account(&rep);
    if rep.inconclusive() { return (None, rep.sched_hash, true) }
    let mut problems: Vec<(String, String)> = probs.lock().unwrap().clone();
    for (t, p) in &rep.panics { problems.push(("panic".into(), format!("thread t{t} panicked: {p}"))) }
    if let Outcome::Stall { .. } = rep.outcome { problems.push(("stall".into(), "run stalled".into())) }
    let total = cfg.writers as u64 * cfg.per_writer as u64;
    let (m, avg) = ex.ok_events_avg_future_duration.probe();
    if rep.outcome == Outcome::Done {
        if m as u64 != c0 + total { problems.push(("lost_update".into(), format!("{total} measurements were recorded{}, the final count is {m}", if c0 > 0 { format!(" on top of a count of {c0}") } else { String::new() }))) }
        else {
            let mean = match cfg.mode { Mode::Single | Mode::Tickets => total as f64, Mode::Constant(c) => (c0 as f64 * a0 + total as f64 * c as f64) / (c0 + total) as f64,
                                        Mode::TwoConstants(c, d) => (cfg.per_writer as f64 * c as f64 + (total - cfg.per_writer as u64) as f64 * d as f64) / total as f64 };
            if !(if c0 > 0 { (avg as f64 - mean).abs() <= 5e-3 * mean.abs().max(1.0) + total as f64 * 2.4e-7 * a0.abs().max(mean.abs()).max(1.0) } else { close(avg as f64, mean) }) { problems.push(("wrong_average".into(), format!("the final average is {avg}, the arithmetic mean of the {total} recorded measurements is {mean}"))) }
        }
    }
    acc.count("measurements", total); acc.count("probes_checked", probes.load(SeqCst));
    let retries = sched::SITE_HITS[rv::AVG_BETWEEN_LOAD_AND_CAS as usize].load(std::sync::atomic::Ordering::Relaxed);
    let _ = retries;
    let v = if problems.is_empty() { None } else {
        let mut sigs: Vec<J> = Vec::new();
        for (a, _) in &problems { let s = J::obj().with("anomaly", J::s(a)); if !sigs.iter().any(|x| x.to_string() == s.to_string()) { sigs.push(s) } }
        Some(J::obj().with("what", J::s(problems.iter().map(|p| p.1.clone()).take(4).collect::<Vec<_>>().join("; "))).with("sigs", J::Arr(sigs)).with("config", cfg.json()).with("strategy", J::s(rc.strategy.describe())))
    };
    (v, rep.sched_hash, false)
}

pub fn run(args: &Args, acc: &mut Acc) { run_loop(args, acc, single) }

fn single(args: &Args, acc: &mut Acc, seed: u64, verbose: bool) {
    let mut rng = Rng::new(seed);
    let mode = match rng.below(5) { 0 => Mode::Single, 1 | 2 => Mode::Tickets, 3 => Mode::Constant(*rng.pick(&[-1, 3, 1000])), _ => { let c = *rng.pick(&[-1, 2, 10]); Mode::TwoConstants(c, c + *rng.pick(&[1, 3, 8, 100])) } };
    let writers = if mode == Mode::Single { 1 } else { 2 + rng.below(2) as usize };
    let per_writer = if args.lane == Lane::Ser { 2 + rng.below(30) as u32 } else { 1000 + rng.below(40_000) as u32 };
    let with_origin = (matches!(mode, Mode::Constant(_)) && rng.chance(2, 3)) || rng.chance(1, 5);
    let writers = if with_origin && writers < 2 { 2 } else { writers };
    let total = writers as u64 * per_writer as u64;
    let origin = if with_origin {
        let c = match rng.below(6) {
            0 => (1u64 << 24) - rng.below(total + 2),                       // the run crosses 2^24
            1 => (1u64 << 24) + rng.below(1000),
            2 => (1u64 << 31) - rng.below(total + 2),
            3 => (1u64 << 24) + rng.below((u32::MAX as u64 - (1 << 24)) - total - 1_000_000),
            4 => u32::MAX as u64 - 2 - total - rng.below(1000),            // next to, but below, the documented reset at u32::MAX
            _ => 1 + rng.below(1 << 24),
        };
        Some((c as u32, *rng.pick(&[-1, 3, 100, 1000])))
    } else { None };
    let mode = if origin.is_some() { Mode::Constant(match mode { Mode::Constant(c) => c, _ => *rng.pick(&[-1, 3, 200]) }) } else { mode };
    if origin.is_some() { acc.count("runs_with_a_count_origin(2^24,2^31,below_u32_max,anywhere)", 1) }
    let cfg = Cfg { mode, writers, per_writer, readers: 1 + rng.below(2) as usize, origin };
    let mut rc = match args.lane { Lane::Ser => RunCfg::ser(seed, draw_strategy(&mut rng, cfg.writers + cfg.readers, &[rv::AVG_BETWEEN_LOAD_AND_CAS], 100)), Lane::Free => RunCfg::free(seed, rng.below(3) as u8) };
    rc.trace = verbose && args.get("trace").is_some();
    let before = sched::SITE_HITS[rv::AVG_BETWEEN_LOAD_AND_CAS as usize].load(std::sync::atomic::Ordering::Relaxed);
    let (violation, hash, inconclusive) = one_run(&cfg, &rc, acc);
    let hits = sched::SITE_HITS[rv::AVG_BETWEEN_LOAD_AND_CAS as usize].load(std::sync::atomic::Ordering::Relaxed) - before;
    let total = cfg.writers as u64 * cfg.per_writer as u64;
    acc.count(&format!("runs[{:?}]", std::mem::discriminant(&cfg.mode)).replace("Discriminant", "mode"), 1);
    if inconclusive { return }
    // non-trivial = the compare-exchange retry path was really taken (more CAS attempts than measurements)
    if hits > total { acc.count("runs_in_which_the_cas_retry_path_was_taken", 1); acc.count("cas_retries", hits - total); acc.nontrivial(mix(hash, total ^ (cfg.writers as u64) << 40)) }
    acc.sample(3, || J::obj().with("config", cfg.json()).with("strategy", J::s(rc.strategy.describe())).with("cas_attempts", J::i(hits as i64)));
    if let Some(v) = violation { file_violation(args, acc, seed, verbose, v) }
}
