//! C06 -- graceful close returns only after every accepted event has been processed.
//!
//! Uni (4 executor kinds x 5 channel kinds) and Multi (2 executor kinds x 6 channel kinds) pipelines on real tokio runtimes
//! (paused-time current-thread = deterministic virtual time; multi-thread with 2-8 workers). Events are sent, then
//! `close(Duration::ZERO)` (unbounded) is awaited; *the closing task itself* takes a snapshot right after the await: every
//! event accepted before the call must have been finished by the pipeline of every stream entitled to it (per-item
//! started/finished marks written by the pipeline), no stream may still be running, the channel must not report itself open.
//! Completion is monotone, so "unfinished in a snapshot taken after the return" implies "unfinished at the return".

use crate::common::{file_violation, run_loop, Acc, Args};
use crate::json::J;
use crate::payload::{Payload, Tok};
use crate::sched::{mix, Rng};
use crate::tk::{self, Guard, ItemError, Ledger, Rt};
use futures::StreamExt;
use reactive_mutiny::prelude::advanced::*;
use reactive_mutiny::prelude::{GenericUni, Instruments};
use std::sync::atomic::{AtomicU32, Ordering::SeqCst};
use std::sync::Arc;
use std::time::Duration;

#[derive(Clone, Copy, Debug, PartialEq, Eq)]
pub enum Item { Sync, Ready, Yields(u8), Sleeps(u8), Fails }

#[derive(Clone, Copy, Debug, PartialEq, Eq)]
pub enum Exec { FuturesFallible, Futures, Fallibles, Plain }

#[derive(Clone, Debug)]
pub struct Cfg { pub kind: &'static str, pub m: usize, pub exec: Exec, pub limit: u32, pub rt: Rt, pub items: Vec<Item>, pub listeners: usize, pub pause_before_close: u8, pub drop_one_stream_first: bool,
    /// a futures timeout that never fires (10 s against items of a few ms) instead of `Duration::ZERO`: the executors' timeout branches
    pub with_timeout: bool,
    /// `cancel_all_streams()` is called right before the close (cancelled streams still drain what is buffered; the close must still wait for them)
    pub cancel_before_close: bool,
    /// a second close() is issued concurrently with the first; each must satisfy the postcondition at its own return
    pub second_close: bool,
    /// before the unbounded close: 0 nothing; 1 a close with a deadline of 1-3 ms (which may expire: it then answers false and the streams stay told to end);
    /// 2 an unbounded close that the caller abandons (its future is dropped) after 1 ms. Either way the unbounded close that follows must wait for everything
    pub earlier_close: u8 }
impl Cfg {
    pub fn json(&self) -> J {
        J::obj().with("channel", J::s(self.kind)).with("MAX_STREAMS", J::i(self.m as i64)).with("executor", J::s(format!("{:?}", self.exec))).with("concurrency_limit", J::i(self.limit as i64)).with("runtime", J::s(self.rt.describe()))
            .with("events", J::i(self.items.len() as i64)).with("per_event_behaviour", J::s(format!("{:?}", &self.items[..self.items.len().min(24)]))).with("listeners", J::i(self.listeners as i64))
            .with("yields_between_last_send_and_close", J::i(self.pause_before_close as i64)).with("a_listener_dropped_before_the_close", J::Bool(self.drop_one_stream_first))
            .with("futures_timeout", J::s(if self.with_timeout { "10 s (never fires)" } else { "none" })).with("cancel_all_streams_before_close", J::Bool(self.cancel_before_close)).with("earlier_close", J::s(["none", "with a deadline of a few ms (may expire)", "unbounded, abandoned by its caller after 1 ms"][self.earlier_close as usize])).with("second_concurrent_close", J::Bool(self.second_close))
    }
}

/// what the pipeline needs from a delivered event: its id
pub trait EvId { fn ev(&self) -> u64; }
impl EvId for Tok { fn ev(&self) -> u64 { self.id } }
impl EvId for Arc<Tok> { fn ev(&self) -> u64 { self.id } }
impl EvId for &'static Tok { fn ev(&self) -> u64 { self.id } }
impl<A: BoundedOgreAllocator<Tok> + Send + Sync + 'static> EvId for OgreUnique<Tok, A> { fn ev(&self) -> u64 { self.id } }
impl<A: BoundedOgreAllocator<Tok> + Send + Sync + 'static> EvId for OgreArc<Tok, A> { fn ev(&self) -> u64 { self.id } }

pub struct Snapshot { pub close_answer: bool, pub unfinished: Vec<(usize, u32, u8)>, pub running: u32, pub open: bool, pub accepted: u32, pub close_calls_at_return: u32, pub in_flight: i32 }

const N: usize = 16;

async fn process(ledger: Arc<Ledger>, slot: u32, beh: Item, paused: bool) -> Result<u32, Box<dyn std::error::Error + Send + Sync>> {
    let g = Guard::start(&ledger, slot);
    match beh {
        Item::Sync | Item::Ready => {}
        Item::Yields(y) => tk::yields(y as u32).await,
        Item::Sleeps(ms) => if paused { tokio::time::sleep(Duration::from_millis(ms as u64)).await } else { tokio::time::sleep(Duration::from_micros(200 * ms as u64)).await },
        // a failing event is fully processed once the executor has run (and awaited) its error callback: state 4 = "failed, error callback not completed yet"
        Item::Fails => { g.complete(); ledger.state.lock().unwrap()[slot as usize] = 4; return Err(Box::new(ItemError(slot))) }
    }
    g.complete();
    Ok(slot)
}
fn process_sync(ledger: &Arc<Ledger>, slot: u32) { let g = Guard::start(ledger, slot); g.complete() }
/// the error callback handed to the executors: takes a moment (two trips through the scheduler), then marks the failed event as fully processed
async fn on_err(ledger: Arc<Ledger>, e: Box<dyn std::error::Error + Send + Sync>) {
    tk::yields(2).await;
    if let Some(ie) = e.downcast_ref::<ItemError>() { let mut st = ledger.state.lock().unwrap(); if (ie.0 as usize) < st.len() && st[ie.0 as usize] == 4 { st[ie.0 as usize] = 2 } }
}
fn on_err_sync(ledger: &Arc<Ledger>, e: Box<dyn std::error::Error + Send + Sync>) {
    if let Some(ie) = e.downcast_ref::<ItemError>() { let mut st = ledger.state.lock().unwrap(); if (ie.0 as usize) < st.len() && st[ie.0 as usize] == 4 { st[ie.0 as usize] = 2 } }
}

/// slot in the ledger of (listener l, event e)
fn slot(l: usize, e: u64, n_events: usize) -> u32 { (l * n_events + e as usize) as u32 }

async fn uni_case<C, D>(cfg: Cfg, ledger: Arc<Ledger>) -> Snapshot
where C: FullDuplexUniChannel<ItemType = Tok, DerivedItemType = D> + Send + Sync + 'static, D: EvId + Send + Sync + std::fmt::Debug + 'static {
    const I: usize = Instruments::NoInstruments.into();
    let paused = cfg.rt == Rt::CurrentPaused;
    let items = Arc::new(cfg.items.clone());
    let ne = items.len();
    let close_calls = Arc::new(AtomicU32::new(0));
    let cc = close_calls.clone();
    let on_close = move |_s| { let cc = cc.clone(); async move { cc.fetch_add(1, SeqCst); } };
    let uni = Uni::<Tok, C, I, D>::new("rmv-c06");
    let fto = if cfg.with_timeout { Duration::from_secs(10) } else { Duration::ZERO };
    let (l1, it1) = (ledger.clone(), items.clone());
    let uni = match cfg.exec {
        Exec::FuturesFallible => uni.spawn_executors(cfg.limit, fto, move |s| { let (l, it) = (l1.clone(), it1.clone()); s.map(move |d: D| { let e = d.ev(); process(l.clone(), slot(0, e, ne), it[e as usize], paused) }) }, { let l = ledger.clone(); move |e| on_err(l.clone(), e) }, on_close),
        Exec::Futures => uni.spawn_futures_executors(cfg.limit, fto, move |s| { let (l, it) = (l1.clone(), it1.clone()); s.map(move |d: D| { let e = d.ev(); let f = process(l.clone(), slot(0, e, ne), it[e as usize], paused); async move { f.await.unwrap_or(u32::MAX) } }) }, on_close),
        Exec::Fallibles => uni.spawn_fallibles_executors(cfg.limit, move |s| { let (l, it) = (l1.clone(), it1.clone()); s.map(move |d: D| -> Result<u32, Box<dyn std::error::Error + Send + Sync>> { let e = d.ev(); process_sync(&l, slot(0, e, ne)); if it[e as usize] == Item::Fails { l.state.lock().unwrap()[slot(0, e, ne) as usize] = 4; Err(Box::new(ItemError(slot(0, e, ne)))) } else { Ok(e as u32) } }) }, { let l = ledger.clone(); move |e| on_err_sync(&l, e) }, on_close),
        Exec::Plain => uni.spawn_non_futures_non_fallibles_executors(cfg.limit, move |s| { let l = l1.clone(); s.map(move |d: D| { let e = d.ev(); process_sync(&l, slot(0, e, ne)); e as u32 }) }, on_close),
    };
    let mut accepted = 0u32;
    let mut accepted_ids: Vec<u64> = Vec::new();
    'sending: for e in 0..ne as u64 {
        let mut tries = 0;
        // (a full buffer: give the consumers time -- virtual time only advances while this task sleeps -- and give up sending more
        //  if they do not make room: a consumer may legitimately be parked until the close wakes it, see C04)
        loop { if uni.send(Tok::make(e)).is_ok() { accepted += 1; accepted_ids.push(e); break } tries += 1; if tries > 40 { break 'sending } tokio::time::sleep(Duration::from_millis(1)).await }
        if e % 3 == 2 { tokio::task::yield_now().await }
    }
    for _ in 0..cfg.pause_before_close { tokio::task::yield_now().await }
    if cfg.cancel_before_close { uni.channel.cancel_all_streams() }
    // (optionally) a second, concurrent close(): it takes its own snapshot right after its own await
    let second = if cfg.second_close {
        let (u2, l2, ids2) = (uni.clone(), ledger.clone(), accepted_ids.clone());
        Some(tokio::spawn(async move { let a = u2.close(Duration::ZERO).await; let st = l2.state.lock().unwrap().clone(); let unf: Vec<(usize, u32, u8)> = ids2.iter().map(|e| *e as usize).filter(|e| st[*e] != 2).map(|e| (0usize, e as u32, st[e])).collect(); (a, unf, u2.channel.running_streams_count()) }))
    } else { None };
    match cfg.earlier_close {
        1 => { let _ = uni.close(Duration::from_millis(1 + (accepted % 3) as u64)).await; }
        2 => { let _ = tokio::time::timeout(Duration::from_millis(1), uni.close(Duration::ZERO)).await; }
        _ => {}
    }
    let close_answer = uni.close(Duration::ZERO).await;
    // ---- the snapshot, taken by the closing task right after the await
    let st = ledger.state.lock().unwrap().clone();
    let mut unfinished: Vec<(usize, u32, u8)> = accepted_ids.iter().map(|e| *e as usize).filter(|e| st[*e] != 2).map(|e| (0usize, e as u32, st[e])).collect();
    let mut running = uni.channel.running_streams_count();
    if let Some(h) = second { if let Ok((_a, unf, r)) = h.await { unfinished.extend(unf); running = running.max(r) } }
    Snapshot { close_answer, unfinished, running, open: uni.channel.is_channel_open(), accepted, close_calls_at_return: close_calls.load(SeqCst), in_flight: ledger.in_flight.load(SeqCst) }
}

async fn multi_case<C, D>(cfg: Cfg, ledger: Arc<Ledger>) -> Snapshot
where C: FullDuplexMultiChannel<ItemType = Tok, DerivedItemType = D> + Send + Sync + 'static, D: EvId + Send + Sync + std::fmt::Debug + 'static {
    const I: usize = Instruments::NoInstruments.into();
    let paused = cfg.rt == Rt::CurrentPaused;
    let items = Arc::new(cfg.items.clone());
    let ne = items.len();
    let close_calls = Arc::new(AtomicU32::new(0));
    // (the log channel maps /tmp/<name>.mmap: a name of its own per run, unlinked right away)
    static SEQ: std::sync::atomic::AtomicU64 = std::sync::atomic::AtomicU64::new(0);
    let name = format!("rmv-c06-{}-{}", std::process::id(), SEQ.fetch_add(1, SeqCst));
    let multi = Arc::new(Multi::<Tok, C, I, D>::new(name.clone()));
    let fto = if cfg.with_timeout { Duration::from_secs(10) } else { Duration::ZERO };
    let _ = std::fs::remove_file(format!("/tmp/{name}.mmap"));
    // (optionally) a listener that goes away, unconsumed and uncancelled, before anything happens
    if cfg.drop_one_stream_first { let (s, _id) = multi.channel.create_stream_for_new_events(); drop(s) }
    for l in 0..cfg.listeners {
        let cc = close_calls.clone();
        let on_close = move |_s| { let cc = cc.clone(); async move { cc.fetch_add(1, SeqCst); } };
        let (lg, it) = (ledger.clone(), items.clone());
        let r = match cfg.exec {
            Exec::FuturesFallible | Exec::Futures | Exec::Fallibles => multi.spawn_executor(cfg.limit, fto, format!("listener {l}"), move |s| s.map(move |d: D| { let e = d.ev(); process(lg.clone(), slot(l, e, ne), it[e as usize], paused) }), { let lg2 = ledger.clone(); move |e| on_err(lg2.clone(), e) }, on_close).await,
            Exec::Plain => multi.spawn_non_futures_non_fallible_executor(cfg.limit, format!("listener {l}"), move |s| s.map(move |d: D| { let e = d.ev(); process_sync(&lg, slot(l, e, ne)); e as u32 }), on_close).await,
        };
        r.expect("spawn executor");
    }
    let mut accepted = 0u32;
    let mut accepted_ids: Vec<u64> = Vec::new();
    'sending: for e in 0..ne as u64 {
        let mut tries = 0;
        // (a full buffer: give the consumers time -- virtual time only advances while this task sleeps -- and give up sending more
        //  if they do not make room: a consumer may legitimately be parked until the close wakes it, see C04)
        loop { if multi.send(Tok::make(e)).is_ok() { accepted += 1; accepted_ids.push(e); break } tries += 1; if tries > 40 { break 'sending } tokio::time::sleep(Duration::from_millis(1)).await }
        if e % 3 == 2 { tokio::task::yield_now().await }
    }
    for _ in 0..cfg.pause_before_close { tokio::task::yield_now().await }
    if cfg.cancel_before_close { multi.channel.cancel_all_streams() }
    let nl = cfg.listeners;
    let second = if cfg.second_close {
        let (m2, l2, ids2) = (multi.clone(), ledger.clone(), accepted_ids.clone());
        Some(tokio::spawn(async move { let a = m2.close(Duration::ZERO).await; let st = l2.state.lock().unwrap().clone(); let mut unf = Vec::new();
            for l in 0..nl { for e in ids2.iter().map(|e| *e as usize) { let s = st[slot(l, e as u64, ne) as usize]; if s != 2 { unf.push((l, e as u32, s)) } } } (a, unf, m2.channel.running_streams_count()) }))
    } else { None };
    match cfg.earlier_close {
        1 => { let _ = multi.close(Duration::from_millis(1 + (accepted % 3) as u64)).await; }
        2 => { let _ = tokio::time::timeout(Duration::from_millis(1), multi.close(Duration::ZERO)).await; }
        _ => {}
    }
    let close_answer = multi.close(Duration::ZERO).await;
    let st = ledger.state.lock().unwrap().clone();
    let mut unfinished = Vec::new();
    for l in 0..cfg.listeners { for e in accepted_ids.iter().map(|e| *e as usize) { let s = st[slot(l, e as u64, ne) as usize]; if s != 2 { unfinished.push((l, e as u32, s)) } } }
    let mut running = multi.channel.running_streams_count();
    if let Some(h) = second { if let Ok((_a, unf, r)) = h.await { unfinished.extend(unf); running = running.max(r) } }
    Snapshot { close_answer, unfinished, running, open: multi.channel.is_channel_open(), accepted, close_calls_at_return: close_calls.load(SeqCst), in_flight: ledger.in_flight.load(SeqCst) }
}

pub const UNI_KINDS: [&str; 5] = ["uni.movable.atomic", "uni.movable.full_sync", "uni.movable.crossbeam", "uni.zero_copy.atomic", "uni.zero_copy.full_sync"];
pub const MULTI_KINDS: [&str; 6] = ["multi.arc.atomic", "multi.arc.full_sync", "multi.arc.crossbeam", "multi.ogre_arc.atomic", "multi.ogre_arc.full_sync", "multi.mmap_log"];

pub fn run_case(cfg: &Cfg) -> (Option<Snapshot>, Arc<Ledger>) {
    let ledger = Ledger::new(cfg.items.len() * cfg.listeners.max(1));
    let (c, l) = (cfg.clone(), ledger.clone());
    let wd = Duration::from_secs(60);
    macro_rules! uni { ($ch:ident, $d:ty) => { match cfg.m { 1 => tk::run(cfg.rt, wd, move || uni_case::<$ch<Tok, N, 1>, $d>(c, l)), _ => tk::run(cfg.rt, wd, move || uni_case::<$ch<Tok, N, 2>, $d>(c, l)) } } }
    macro_rules! multi { ($ch:ident, $d:ty) => { tk::run(cfg.rt, wd, move || multi_case::<$ch<Tok, N, 4>, $d>(c, l)) } }
    let snap = match cfg.kind {
        "uni.movable.atomic" => uni!(ChannelUniMoveAtomic, Tok),
        "uni.movable.full_sync" => uni!(ChannelUniMoveFullSync, Tok),
        "uni.movable.crossbeam" => uni!(ChannelUniMoveCrossbeam, Tok),
        "uni.zero_copy.atomic" => match cfg.m { 1 => tk::run(cfg.rt, wd, move || uni_case::<ChannelUniZeroCopyAtomic<Tok, N, 1>, OgreUnique<Tok, AllocatorAtomicArray<Tok, N>>>(c, l)), _ => tk::run(cfg.rt, wd, move || uni_case::<ChannelUniZeroCopyAtomic<Tok, N, 2>, OgreUnique<Tok, AllocatorAtomicArray<Tok, N>>>(c, l)) },
        "uni.zero_copy.full_sync" => match cfg.m { 1 => tk::run(cfg.rt, wd, move || uni_case::<ChannelUniZeroCopyFullSync<Tok, N, 1>, OgreUnique<Tok, AllocatorFullSyncArray<Tok, N>>>(c, l)), _ => tk::run(cfg.rt, wd, move || uni_case::<ChannelUniZeroCopyFullSync<Tok, N, 2>, OgreUnique<Tok, AllocatorFullSyncArray<Tok, N>>>(c, l)) },
        "multi.arc.atomic" => multi!(ChannelMultiArcAtomic, Arc<Tok>),
        "multi.arc.full_sync" => multi!(ChannelMultiArcFullSync, Arc<Tok>),
        "multi.arc.crossbeam" => multi!(ChannelMultiArcCrossbeam, Arc<Tok>),
        "multi.ogre_arc.atomic" => tk::run(cfg.rt, wd, move || multi_case::<ChannelMultiOgreArcAtomic<Tok, N, 4>, OgreArc<Tok, AllocatorAtomicArray<Tok, N>>>(c, l)),
        "multi.ogre_arc.full_sync" => tk::run(cfg.rt, wd, move || multi_case::<ChannelMultiOgreArcFullSync<Tok, N, 4>, OgreArc<Tok, AllocatorFullSyncArray<Tok, N>>>(c, l)),
        _ => tk::run(cfg.rt, wd, move || { let r = multi_case::<ChannelMultiMmapLog<Tok, 4>, &'static Tok>(c, l); r }),
    };
    (snap, ledger)
}

pub fn draw_cfg(rng: &mut Rng, only: Option<&str>) -> Cfg {
    let mut kinds: Vec<&'static str> = UNI_KINDS.iter().chain(MULTI_KINDS.iter()).copied().collect();
    if let Some(o) = only { kinds.retain(|k| *k == o) }
    let kind = *rng.pick(&kinds);
    let multi = kind.starts_with("multi");
    let rt = if rng.chance(1, 2) { Rt::CurrentPaused } else { Rt::Multi(2 + rng.below(7) as usize) };
    let exec = if multi { *rng.pick(&[Exec::FuturesFallible, Exec::FuturesFallible, Exec::Plain]) } else { *rng.pick(&[Exec::FuturesFallible, Exec::Futures, Exec::Fallibles, Exec::Plain]) };
    // the Arc-based Multi kinds wait (sleeping) when a listener's buffer is full: stay within the buffer there
    let max_events = if kind.starts_with("multi.arc") { N - 1 } else { 3 * N };
    let n_events = rng.below(max_events as u64 + 1) as usize;
    let futures = matches!(exec, Exec::FuturesFallible | Exec::Futures);
    let items: Vec<Item> = (0..n_events).map(|_| if !futures { if exec == Exec::Fallibles && rng.chance(1, 5) { Item::Fails } else { Item::Sync } } else { match rng.below(10) { 0..=2 => Item::Ready, 3..=5 => Item::Yields(1 + rng.below(3) as u8), 6..=8 => Item::Sleeps(1 + rng.below(5) as u8), _ => if exec == Exec::FuturesFallible { Item::Fails } else { Item::Ready } } }).collect();
    Cfg { kind, m: 1 + rng.below(2) as usize, exec, limit: 1 + rng.below(4) as u32, rt, items, listeners: if multi { 1 + rng.below(3) as usize } else { 1 }, pause_before_close: rng.below(4) as u8, drop_one_stream_first: multi && rng.chance(1, 4),
          with_timeout: futures && rng.chance(1, 2), cancel_before_close: rng.chance(1, 5), second_close: rng.chance(1, 5), earlier_close: if rng.chance(1, 4) { 1 + rng.below(2) as u8 } else { 0 } }
}

pub fn run(args: &Args, acc: &mut Acc) { run_loop(args, acc, single) }

fn single(args: &Args, acc: &mut Acc, seed: u64, verbose: bool) {
    if args.get("workload") == Some("storm") { return storm(args, acc, seed, verbose) }
    let mut rng = Rng::new(seed);
    let cfg = draw_cfg(&mut rng, args.only.as_deref());
    let (snap, _ledger) = run_case(&cfg);
    judge(args, acc, seed, verbose, &cfg, snap)
}

/// any Uni kind, inside an already running runtime
async fn uni_dispatch(cfg: Cfg, l: Arc<Ledger>) -> Snapshot {
    macro_rules! uni { ($ch:ident, $d:ty) => { match cfg.m { 1 => uni_case::<$ch<Tok, N, 1>, $d>(cfg, l).await, _ => uni_case::<$ch<Tok, N, 2>, $d>(cfg, l).await } } }
    match cfg.kind {
        "uni.movable.atomic" => uni!(ChannelUniMoveAtomic, Tok),
        "uni.movable.full_sync" => uni!(ChannelUniMoveFullSync, Tok),
        "uni.movable.crossbeam" => uni!(ChannelUniMoveCrossbeam, Tok),
        "uni.zero_copy.atomic" => match cfg.m { 1 => uni_case::<ChannelUniZeroCopyAtomic<Tok, N, 1>, OgreUnique<Tok, AllocatorAtomicArray<Tok, N>>>(cfg, l).await, _ => uni_case::<ChannelUniZeroCopyAtomic<Tok, N, 2>, OgreUnique<Tok, AllocatorAtomicArray<Tok, N>>>(cfg, l).await },
        _ => match cfg.m { 1 => uni_case::<ChannelUniZeroCopyFullSync<Tok, N, 1>, OgreUnique<Tok, AllocatorFullSyncArray<Tok, N>>>(cfg, l).await, _ => uni_case::<ChannelUniZeroCopyFullSync<Tok, N, 2>, OgreUnique<Tok, AllocatorFullSyncArray<Tok, N>>>(cfg, l).await },
    }
}

/// workload `storm`: a few hundred small Unis opened, fed 0-3 events and closed one after the other on ONE multi-thread runtime (no runtime start-up
/// between them), half of them with cancel_all_streams() right before the close and some with a second concurrent close -- the moments at which the
/// closing task wakes streams that are, at that very instant, ending and being dropped on other workers. Same snapshot oracle as the other runs.
fn storm(args: &Args, acc: &mut Acc, seed: u64, verbose: bool) {
    let mut rng = Rng::new(seed);
    let workers = 2 + rng.below(5) as usize;
    let mut cfgs = Vec::new();
    for _ in 0..200 {
        let mut kinds: Vec<&'static str> = UNI_KINDS.to_vec();
        if let Some(o) = args.only.as_deref() { if UNI_KINDS.contains(&o) { kinds.retain(|k| *k == o) } }
        let kind = *rng.pick(&kinds);
        let exec = *rng.pick(&[Exec::Plain, Exec::Plain, Exec::Fallibles, Exec::FuturesFallible, Exec::Futures]);
        let futures = matches!(exec, Exec::FuturesFallible | Exec::Futures);
        let items: Vec<Item> = (0..rng.below(4)).map(|_| if futures { *rng.pick(&[Item::Ready, Item::Yields(1)]) } else { Item::Sync }).collect();
        cfgs.push(Cfg { kind, m: 1 + rng.below(2) as usize, exec, limit: 1 + rng.below(2) as u32, rt: Rt::Multi(workers), items, listeners: 1, pause_before_close: rng.below(2) as u8, drop_one_stream_first: false,
                        with_timeout: false, cancel_before_close: rng.chance(1, 2), second_close: rng.chance(1, 3), earlier_close: 0 });
    }
    let batch = cfgs.clone();
    let out = tk::run(Rt::Multi(workers), Duration::from_secs(120), move || async move {
        let mut out = Vec::new();
        for cfg in batch { let ledger = Ledger::new(cfg.items.len().max(1)); out.push(uni_dispatch(cfg, ledger).await) }
        out
    });
    match out {
        None => { acc.evaluations += 1; acc.inconclusive += 1; acc.count("inconclusive_watchdog", 1) }
        Some(snaps) => { acc.count("storm_batches(200_unis_closed_back_to_back_on_one_multi_thread_runtime)", 1); for (cfg, snap) in cfgs.iter().zip(snaps.into_iter()) { judge(args, acc, seed, verbose, cfg, Some(snap)) } }
    }
}

fn judge(args: &Args, acc: &mut Acc, seed: u64, verbose: bool, cfg: &Cfg, snap: Option<Snapshot>) {
    acc.evaluations += 1;
    acc.count(&format!("runs[{}]", cfg.kind), 1);
    acc.count(if cfg.rt == Rt::CurrentPaused { "runs_on_paused_current_thread_runtime" } else { "runs_on_multi_thread_runtime" }, 1);
    let Some(s) = snap else { acc.inconclusive += 1; acc.count("inconclusive_watchdog", 1); if acc.notes.len() < 10 { acc.notes.push(format!("watchdog: {}", cfg.json().to_string())) } return };
    acc.count("events_accepted", s.accepted as u64);
    let mut problems: Vec<(String, String)> = Vec::new();
    if !s.unfinished.is_empty() {
        let never_started = s.unfinished.iter().filter(|u| u.2 == 0).count(); let running = s.unfinished.iter().filter(|u| u.2 == 1).count();
        let err_pending = s.unfinished.iter().filter(|u| u.2 == 4).count();
        if err_pending > 0 { problems.push(("close_returned_before_the_error_callback_of_a_failed_event_completed".into(), format!("close(unbounded) returned {} while the error callback of {} failed event(s) had not completed (the executor awaits it as part of processing the event): (listener, event, state) {:?}", s.close_answer, err_pending, s.unfinished.iter().filter(|u| u.2 == 4).take(6).collect::<Vec<_>>()))) }
        if never_started + running > 0 {
        problems.push((if running > 0 { "close_returned_with_items_in_flight" } else { "close_returned_before_items_were_started" }.into(),
            format!("close(unbounded) returned {} while {} accepted event(s) were not fully processed ({} still inside their pipeline future, {} not even started): (listener, event, state) {:?}", s.close_answer, s.unfinished.len(), running, never_started, &s.unfinished[..s.unfinished.len().min(8)])));
        }
    }
    if s.running != 0 { problems.push(("streams_still_running".into(), format!("after close() returned running_streams_count() is {}", s.running))) }
    if s.open { problems.push(("channel_still_open".into(), "after close() returned is_channel_open() is still true".into())) }
    if cfg.limit >= 2 { acc.count("runs_with_concurrency_limit>=2", 1) }
    if cfg.with_timeout { acc.count("runs_with_a_futures_timeout_set", 1) }
    if cfg.cancel_before_close { acc.count("runs_with_cancel_all_streams_right_before_the_close", 1) }
    if cfg.second_close { acc.count("runs_with_a_second_concurrent_close", 1) }
    if cfg.earlier_close == 1 { acc.count("runs_with_an_earlier_close_that_had_a_deadline", 1) }
    if cfg.earlier_close == 2 { acc.count("runs_with_an_earlier_close_abandoned_by_its_caller", 1) }
    if !cfg.items.is_empty() { acc.nontrivial(cfg.items.iter().fold(mix(seed & 0xFF, cfg.limit as u64 * 11 + cfg.listeners as u64), |h, i| mix(h, match i { Item::Sync => 1, Item::Ready => 2, Item::Yields(y) => 10 + *y as u64, Item::Sleeps(s) => 20 + *s as u64, Item::Fails => 3 })) ^ (cfg.kind.len() as u64) << 50 ^ cfg.exec as u64) }
    acc.sample(3, || J::obj().with("config", cfg.json()).with("in_flight_when_close_returned", J::i(s.in_flight)).with("close_callbacks_run_when_close_returned", J::i(s.close_calls_at_return)));
    if !problems.is_empty() {
        let mut sigs: Vec<J> = Vec::new();
        for (a, _) in &problems { let sg = J::obj().with("anomaly", J::s(a)).with("channel", J::s(cfg.kind)).with("executor", J::s(format!("{:?}", cfg.exec))).with("concurrency_limit_ge_2", J::Bool(cfg.limit >= 2)).with("a_listener_was_dropped_before", J::Bool(cfg.drop_one_stream_first)).with("futures_timeout_set", J::Bool(cfg.with_timeout)).with("cancel_all_before_close", J::Bool(cfg.cancel_before_close)).with("second_close", J::Bool(cfg.second_close)); if !sigs.iter().any(|x| x.to_string() == sg.to_string()) { sigs.push(sg) } }
        let v = J::obj().with("what", J::s(problems.iter().map(|p| p.1.clone()).collect::<Vec<_>>().join("; "))).with("sigs", J::Arr(sigs)).with("config", cfg.json());
        file_violation(args, acc, seed, verbose, v);
    }
}
