//! C10 -- a listener sees exactly the events sent during its lifetime; stream ids recycle.
//!
//! Sequential histories over {create listener, send, receive, drop listener (with or without unconsumed events), cancel all}
//! against a reference model: the set of live listeners and, per listener, the events accepted while it lived. Random
//! histories up to 2000 steps (every id is recycled many times) and exhaustive short ones for MAX_STREAMS 1 and 2; every
//! non-log Multi kind; the create/drop bookkeeping alone for the Uni kinds; the stream-id FIFO starting anywhere (wrap).

use crate::chan::{self, Chan, Kind, SendRes, Strm};
use crate::common::{file_violation, run_loop, Acc, Args};
use crate::drive::{send_via, Entry};
use crate::json::J;
use crate::sched::{mix, Rng};
use reactive_mutiny::verif as rv;
use std::collections::VecDeque;
use std::sync::Arc;
use std::task::Poll;

#[derive(Clone, Copy, Debug, PartialEq, Eq)]
pub enum Op { Create, Send, Recv(u8), RecvAll(u8), Drop(u8), CancelAll,
    /// cancel_all_streams() only: the listeners stay (their stream objects are not dropped), later sends still reach their queues; each one yields what is
    /// buffered when polled and answers end-of-stream once it finds nothing
    CancelOnly }

struct Live { s: Box<dyn Strm>, expect: VecDeque<u64>, born_after: u64, cancelled: bool, ended: bool }

pub struct Hist { qlen: Vec<usize>, ch: Arc<dyn Chan>, kind: Kind, n: usize, m: usize, live: Vec<Live>, next_id: u64, pub problems: Vec<(String, String)>, pub steps: u64, pub recycled: u64, created: u64, pub stale_seen: bool, drops: u64 }

impl Hist {
    pub fn new(kind: Kind, n: usize, m: usize, origin: Option<u32>) -> Hist {
        rv::set_sequence_origin(origin); let ch = chan::make(kind, n, m, false).expect("instantiation"); rv::set_sequence_origin(None);
        Hist { qlen: vec![0; m], ch, kind, n, m, live: Vec::new(), next_id: 1, problems: Vec::new(), steps: 0, recycled: 0, created: 0, stale_seen: false, drops: 0 }
    }
    fn problem(&mut self, a: &str, s: String) { if self.problems.len() < 6 { let st = self.steps; self.problems.push((a.into(), format!("step {st}: {s}"))) } }
    pub fn legal(&self, op: Op) -> bool {
        match op {
            Op::Create => self.live.len() < self.m,
            Op::Send => self.kind.is_multi() && !(self.kind.never_rejects() && self.live.iter().any(|l| self.qlen[l.s.id() as usize] + 1 >= self.n)),     // (the real queue of a recycled id may still hold what an earlier listener left behind: the Arc kinds would wait forever on a full one)
            Op::Recv(i) | Op::RecvAll(i) => (i as usize) < self.live.len() && !self.live[i as usize].ended,
            Op::Drop(i) => (i as usize) < self.live.len(),
            Op::CancelAll | Op::CancelOnly => !self.live.is_empty(),
        }
    }
    fn check_running(&mut self) { let r = self.ch.running(); if r as usize != self.live.len() { let l = self.live.len(); self.problem("running_count", format!("running_streams_count() is {r} with {l} live stream(s)")) } }
    fn recv(&mut self, i: usize, after_cancel: bool) -> Option<bool> {
        let w = chan::noop_waker();
        let r = self.live[i].s.poll(&w);
        let expect = self.live[i].expect.front().copied();
        match r {
            Poll::Ready(Some(it)) => {
                let sid = self.live[i].s.id() as usize; if self.qlen[sid] > 0 { self.qlen[sid] -= 1 }
                if !it.valid { self.problem("corrupt", format!("listener yielded a corrupted payload (id field {:#x})", it.id)) }
                match expect {
                    Some(e) if e == it.id => { self.live[i].expect.pop_front(); }
                    _ => {
                        let born = self.live[i].born_after;
                        if it.id <= born { self.stale_seen = true; self.problem("stale_event_from_before_creation", format!("a listener created after event {born} was sent yielded event {} (left unconsumed by an earlier listener that used the same stream id)", it.id)) }
                        else { self.problem("wrong_event", format!("a listener yielded {} where {:?} was next for it", it.id, expect)); if let Some(p) = self.live[i].expect.iter().position(|x| *x == it.id) { self.live[i].expect.remove(p); } }
                    }
                }
                Some(true)
            }
            Poll::Ready(None) => { if !after_cancel { self.problem("ended_by_itself", "a listener answered end-of-stream without having been told to end".into()) } else if let Some(e) = expect { self.problem("missed", format!("a cancelled listener ended although event {e}, accepted during its lifetime, was still buffered for it")) } None }
            Poll::Pending => { if let Some(e) = expect { self.problem("missed", format!("a listener found nothing although event {e}, accepted during its lifetime, is pending for it")) } if after_cancel { self.problem("not_ended", "a cancelled listener with nothing buffered answered Pending".into()) } Some(false) }
        }
    }
    pub fn step(&mut self, op: Op) {
        self.steps += 1;
        match op {
            Op::Create => {
                let ch = self.ch.clone();
                match std::panic::catch_unwind(std::panic::AssertUnwindSafe(move || ch.create_stream())) {
                    Ok(s) => { self.created += 1; if self.created > self.m as u64 { self.recycled += 1 } let b = self.next_id - 1; self.live.push(Live { s, expect: VecDeque::new(), born_after: b, cancelled: false, ended: false }) }
                    Err(_) => { let l = self.live.len(); let m = self.m; self.problem("ids_exhausted", format!("creating a stream with {l} of MAX_STREAMS = {m} streams alive panicked")) }
                }
            }
            Op::Send => {
                let id = self.next_id; self.next_id += 1;
                if send_via(&*self.ch, Entry::Send, id) == SendRes::Ok { for l in self.live.iter_mut() { l.expect.push_back(id); self.qlen[l.s.id() as usize] += 1 } }
            }
            Op::Recv(i) => { let c = self.live[i as usize].cancelled; if self.recv(i as usize, c).is_none() { self.live[i as usize].ended = true } }
            Op::RecvAll(i) => { let c = self.live[i as usize].cancelled; let mut g = 0; loop { match self.recv(i as usize, c) { Some(true) if g < 100_000 => g += 1, None => { self.live[i as usize].ended = true; break } _ => break } } }
            Op::CancelOnly => { self.ch.cancel_all(); for l in self.live.iter_mut() { l.cancelled = true } }
            Op::Drop(i) => { let l = self.live.remove(i as usize); self.drops += 1; crate::drive::drop_stream(l, !cfg!(miri) && self.drops % 3 == 0) }   // (every third drop: while the thread unwinds from a panic, as a failing consumer task does)
            Op::CancelAll => {
                self.ch.cancel_all();
                for i in 0..self.live.len() { let mut g = 0; loop { match self.recv(i, true) { Some(true) => { g += 1; if g > 100_000 { break } } Some(false) => break, None => break } } }
                self.live.clear();
            }
        }
        self.check_running();
    }
    pub fn finish(mut self) -> Vec<(String, String)> {
        // everything is dropped; all ids must be available again
        self.live.clear();
        self.check_running();
        let ch = self.ch.clone(); let m = self.m;
        if std::panic::catch_unwind(std::panic::AssertUnwindSafe(move || { let v: Vec<_> = (0..m).map(|_| ch.create_stream()).collect(); drop(v) })).is_err() { self.problem("ids_exhausted", format!("after every stream was dropped, creating MAX_STREAMS = {m} streams panicked")) }
        self.problems
    }
}

fn alphabet(kind: Kind, m: usize) -> Vec<Op> {
    let mut a = vec![Op::Create];
    if kind.is_multi() { a.push(Op::Send) }
    for i in 0..m.min(2) as u8 { if kind.is_multi() { a.push(Op::Recv(i)) } a.push(Op::Drop(i)) }
    a
}

fn report(args: &Args, acc: &mut Acc, seed: u64, verbose: bool, kind: Kind, n: usize, m: usize, origin: Option<u32>, script: &[Op], problems: Vec<(String, String)>, workload: &str) {
    let mut sigs: Vec<J> = Vec::new();
    for (a, _) in &problems { let s = J::obj().with("anomaly", J::s(a)).with("kind", J::s(kind.name())); if !sigs.iter().any(|x| x.to_string() == s.to_string()) { sigs.push(s) } }
    let tail = &script[script.len().saturating_sub(40)..];
    let v = J::obj().with("what", J::s(problems.iter().map(|p| p.1.clone()).take(4).collect::<Vec<_>>().join("; "))).with("sigs", J::Arr(sigs))
        .with("config", J::obj().with("kind", J::s(kind.name())).with("N", J::i(n as i64)).with("M", J::i(m as i64)).with("sequence_origin", origin.map(|o| J::i(o as i64)).unwrap_or(J::Null)))
        .with("last_steps_of_history", J::s(format!("{:?}", tail))).with("workload", J::s(workload));
    file_violation(args, acc, seed, verbose, v);
}

fn kinds(only: Option<&str>) -> Vec<Kind> { chan::ALL_KINDS.iter().copied().filter(|k| *k != Kind::MultiMmap && only.map(|o| k.name() == o).unwrap_or(true)).collect() }

fn random(args: &Args, acc: &mut Acc, seed: u64, verbose: bool) {
    let mut rng = Rng::new(seed);
    let kind = *rng.pick(&kinds(args.only.as_deref()));
    let (n, m) = *rng.pick(&chan::cfgs_for(kind, false));
    let origin = match rng.below(3) { 0 => None, 1 => Some(0u32.wrapping_sub(rng.below(3 * m as u64 + 2) as u32)), _ => Some(rng.next() as u32) };
    let len = 5 + rng.below(if args.thorough() { 2000 } else { 400 }) as usize;
    let mut rng2 = Rng::new(rng.next());
    let mut body = move || {
        let mut h = Hist::new(kind, n, m, origin);
        let mut script = Vec::new();
        for _ in 0..len {
            let op = match rng2.below(100) { 0..=17 => Op::Create, 18..=49 => Op::Send, 50..=69 => Op::Recv(rng2.below(m as u64) as u8), 70..=76 => Op::RecvAll(rng2.below(m as u64) as u8), 77..=94 => Op::Drop(rng2.below(m as u64) as u8), 95..=96 => Op::CancelOnly, _ => Op::CancelAll };
            if !h.legal(op) { continue }
            script.push(op); h.step(op);
            if !h.problems.is_empty() { break }
        }
        let (steps, recycled) = (h.steps, h.recycled);
        (script, steps, recycled, h.finish())
    };
    // The Arc-based Multi kinds WAIT inside `send` when a listener's queue is full. The histories never fill a live listener's queue, but should events be
    // routed to a queue nobody owns such a send never returns: those kinds run on a thread of their own under a wall-clock watchdog whose firing is
    // inconclusive (the thread is abandoned), so that the other kinds -- where the same defect shows as a wrong answer -- still get their turn.
    let (script, steps, recycled, problems) = if kind.never_rejects() {
        let (tx, rx) = std::sync::mpsc::channel();
        std::thread::Builder::new().stack_size(1 << 20).spawn(move || { let _ = tx.send(body()); }).expect("spawn");
        match rx.recv_timeout(std::time::Duration::from_secs(10)) {
            Ok(r) => r,
            Err(_) => { acc.evaluations += 1; acc.inconclusive += 1; acc.count("inconclusive_watchdog(a send on an Arc kind never returned)", 1); if acc.notes.len() < 6 { acc.notes.push(format!("watchdog: a history on {} (N={n}, M={m}) did not finish within 10 s: a send waits for room in a queue although no live listener's queue is full", kind.name())) } return }
        }
    } else { body() };
    acc.evaluations += 1;
    acc.count(&format!("histories[{}]", kind.name()), 1); acc.count("history_steps", steps); acc.count("stream_ids_recycled", recycled);
    if origin.map(|o| o > u32::MAX - 64).unwrap_or(false) { acc.count("histories_with_the_id_fifo_crossing_the_32bit_wrap", 1) }
    if recycled > 0 { acc.nontrivial(script.iter().fold(seed & 0xF, |hh, o| mix(hh, match o { Op::Create => 1, Op::Send => 2, Op::Recv(i) => 10 + *i as u64, Op::RecvAll(i) => 20 + *i as u64, Op::Drop(i) => 30 + *i as u64, Op::CancelAll => 40, Op::CancelOnly => 41 })) ^ kind as u64) }
    acc.sample(2, || J::obj().with("kind", J::s(kind.name())).with("M", J::i(m as i64)).with("history_head", J::s(format!("{:?}", &script[..script.len().min(30)]))));
    if !problems.is_empty() { report(args, acc, seed, verbose, kind, n, m, origin, &script, problems, "random") }
}

fn exhaustive(args: &Args, acc: &mut Acc) {
    let depth: usize = args.get("depth").and_then(|d| d.parse().ok()).unwrap_or(if args.thorough() { 9 } else { 7 });
    let mut leaf_no = 0u64;
    for kind in kinds(args.only.as_deref()) {
        for (n, m) in chan::cfgs_for(kind, false).into_iter().filter(|c| c.1 <= 2 && c.0 <= 4) {
            let alpha = alphabet(kind, m);
            let d = if kind.is_multi() { depth } else { depth.min(6) };
            let mut stack: Vec<usize> = vec![0];
            let mut script: Vec<Op> = Vec::new();
            loop {
                if !acc.more() { acc.counters.add("exhaustive_enumeration_cut_short_by_the_time_budget", 1); return }
                let Some(top) = stack.last().copied() else { break };
                if top >= alpha.len() { stack.pop(); script.pop(); if let Some(t) = stack.last_mut() { *t += 1 } continue }
                script.truncate(stack.len() - 1);
                script.push(alpha[top]);
                let mine = (leaf_no + 1) % args.nshards == args.shard;
                // replay the prefix (legality + verdict)
                let mut h = Hist::new(kind, n, m, None);
                let mut legal = true;
                for op in &script { if !h.legal(*op) { legal = false; break } h.step(*op); }
                if !legal { let _ = h.finish(); *stack.last_mut().unwrap() += 1; continue }
                if script.len() < d { let _ = h.finish(); stack.push(0); continue }
                leaf_no += 1;
                if mine {
                    let problems = h.finish();
                    acc.evaluations += 1;
                    acc.nontrivial(mix(leaf_no, kind as u64 * 100 + m as u64));
                    if !problems.is_empty() { report(args, acc, leaf_no, false, kind, n, m, None, &script, problems, "exhaustive") }
                } else { let _ = h.finish(); }
                *stack.last_mut().unwrap() += 1;
            }
            acc.counters.add(&format!("exhaustive_done[{},N={},M={},depth={}]", kind.name(), n, m, d), 1);
        }
    }
}

pub fn run(args: &Args, acc: &mut Acc) { if args.get("workload") == Some("exhaustive") { exhaustive(args, acc) } else { run_loop(args, acc, random) } }
