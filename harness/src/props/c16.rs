//! C16 -- a rejected send changes nothing, never blocks; retry works once there is room; fill/drain cycles always allow
//! exactly BUFFER_SIZE outstanding events.
//!
//! * workload `cycles` (sequential, exact): long random fill/drain histories through every entry point against the
//!   reference model of `seq.rs` -- every accept/reject answer, every delivery and every reported length is predicted.
//! * workload `retry` (concurrent): 2-4 producers retry rejected sends against one consumer; "a rejected send that does
//!   not return" is the conductor's stall verdict (never a clock); afterwards the emptied channel must accept exactly
//!   BUFFER_SIZE events (no capacity leaked by colliding receding producers).

use crate::chan::{self, Chan, Kind, SendRes};
use crate::common::{draw_strategy, file_violation, run_loop, Acc, Args};
use crate::drive::{entries_for, polling_consumer_body, producer_body, send_via, ConsLog, Entry, Hold, OnExit, ProdLog};
use crate::json::J;
use crate::sched::{self, mix, Body, Lane, Outcome, Rng, RunCfg};
use crate::seq::{self, Engine, Op, R};
use std::collections::HashSet;
use std::sync::{atomic::{AtomicU32, Ordering::SeqCst}, Arc};
use std::task::Poll;

pub const KINDS: [Kind; 7] = [Kind::UniMoveAtomic, Kind::UniMoveFullSync, Kind::UniMoveCrossbeam, Kind::UniZcAtomic, Kind::UniZcFullSync, Kind::MultiOgreAtomic, Kind::MultiOgreFullSync];

fn kinds(only: Option<&str>) -> Vec<Kind> { KINDS.iter().copied().filter(|k| only.map(|o| k.name() == o).unwrap_or(true)).collect() }

// ------------------------------------------------------------------------------------------------ cycles (sequential)

fn cycles(args: &Args, acc: &mut Acc, seed: u64, verbose: bool) {
    let mut rng = Rng::new(seed);
    let kind = *rng.pick(&kinds(args.only.as_deref()));
    let droppy = rng.chance(1, 6);
    let (n, m) = *rng.pick(&chan::cfgs_for(kind, droppy));
    let streams = 1 + rng.below(m.min(3) as u64) as usize;
    let Some(mut eng) = Engine::new(kind, n, m, streams, droppy, None) else { return };
    if droppy { crate::payload::tracker().reset(1 << 16) }
    let es: Vec<Entry> = entries_for(kind).into_iter().filter(|e| *e != Entry::Derived).collect();
    let ncycles = 1 + rng.below(if args.thorough() { 400 } else { 60 });
    let mut script: Vec<Op> = Vec::new();
    let (mut full_answers, mut cycles_done) = (0u64, 0u64);
    'outer: for _ in 0..ncycles {
        // fill: send until the channel has said "full" 1-3 times (mixing in a few polls / releases / length queries)
        let want_full = 1 + rng.below(3);
        let mut fulls = 0; let mut guard = 0;
        while fulls < want_full {
            guard += 1; if guard > 8 * n + 64 { eng.problems.push(format!("the channel never answered full while being filled ({} sends)", guard)); break 'outer }
            let op = match rng.below(100) { 0..=79 => Op::Send(*rng.pick(&es)), 80..=86 => Op::Poll(rng.below(streams as u64) as u8), 87..=92 => Op::ReleaseOldest, _ => Op::Len };
            script.push(op);
            if eng.step(op) == R::Full { fulls += 1; full_answers += 1 }
            if !eng.problems.is_empty() { break 'outer }
        }
        // drain: completely or partly
        let partial = rng.chance(1, 3);
        let mut k = 0;
        loop {
            let op = match rng.below(100) { 0..=44 => Op::Poll(rng.below(streams as u64) as u8), 45..=69 => Op::PollDrop(rng.below(streams as u64) as u8), 70..=89 => Op::ReleaseOldest, 90..=94 => Op::ReleaseNewest, _ => Op::Len };
            script.push(op);
            eng.step(op);
            k += 1;
            if !eng.problems.is_empty() { break 'outer }
            if (partial && k > n) || k > 6 * n * streams + 8 { break }
        }
        if !partial { eng.drain() }
        cycles_done += 1;
    }
    if eng.problems.is_empty() { eng.finish(false) }
    acc.evaluations += 1;
    acc.count("cycles", cycles_done); acc.count("answers_full", full_answers); acc.count("script_steps", script.len() as u64);
    acc.count(&format!("cycle_runs[{}]", kind.name()), 1);
    let steps = script.len();
    let tail: Vec<Op> = script[steps.saturating_sub(40)..].to_vec();
    let cfgj = J::obj().with("kind", J::s(kind.name())).with("N", J::i(n as i64)).with("M", J::i(m as i64)).with("streams", J::i(streams as i64)).with("droppy", J::Bool(droppy)).with("cycles", J::i(ncycles as i64));
    acc.sample(2, || J::obj().with("workload", J::s("cycles")).with("config", cfgj.clone()).with("last_steps", seq::script_json(&tail)));
    let thash = eng.transcript.iter().fold(seed ^ 0x51, |h, r| mix(h, match r { R::Ok => 1, R::Full => 2, R::Got(i) => 3 + (*i << 4), R::Nothing => 4, R::Len(l) => 5 + ((*l as u64) << 4), _ => 6 }));
    let (_t, mut problems) = eng.teardown();
    if droppy { problems.extend(crate::payload::tracker().take_problems()) }
    if full_answers > 0 { acc.nontrivial(mix(thash, kind as u64)) }
    if !problems.is_empty() {
        let anomaly = if problems[0].contains("rejected as full") { "rejected_with_room" } else if problems[0].contains("accepted") { "capacity" } else if problems[0].contains("pending_items_count") { "length" } else { "model_mismatch" };
        let v = J::obj().with("what", J::s(problems.join("; "))).with("sigs", J::Arr(vec![J::obj().with("anomaly", J::s(anomaly)).with("kind", J::s(kind.name())).with("workload", J::s("cycles"))]))
            .with("config", cfgj).with("last_steps_of_script", seq::script_json(&tail));
        file_violation(args, acc, seed, verbose, v);
    }
}

// ------------------------------------------------------------------------------------------------ retry (concurrent)

/// after the run: how many events does the emptied channel accept? (fresh stream; everything is drained and released first)
pub fn probe_capacity(ch: &Arc<dyn Chan>) -> Result<u32, String> {
    let mut s = ch.create_stream();
    let w = chan::noop_waker();
    let mut drained = 0;
    while let Poll::Ready(Some(it)) = s.poll(&w) { drop(it); drained += 1; if drained > 1_000_000 { return Err("the stream keeps yielding".into()) } }
    let n = ch.info().n as u32;
    let mut accepted = 0;
    for i in 0..n + 2 { if send_via(&**ch, Entry::Send, 0xF000_0000 + i as u64) == SendRes::Ok { accepted += 1 } else { break } }
    let pend = ch.pending();
    while let Poll::Ready(Some(it)) = s.poll(&w) { drop(it) }
    drop(s);
    if accepted != n { return Err(format!("after everything was consumed and released the channel accepted {accepted} event(s), not BUFFER_SIZE = {n}")) }
    if pend != n { return Err(format!("with BUFFER_SIZE = {n} events buffered pending_items_count reported {pend}")) }
    Ok(accepted)
}

/// like [probe_capacity], but first drains the queue of *every* stream id (events left behind by dropped listeners keep their storage
/// until the id is used again -- that is not a permanent loss): what is missing afterwards is gone for good
pub fn probe_capacity_all_ids(ch: &Arc<dyn Chan>) -> Result<u32, String> {
    let m = ch.info().m;
    let w = chan::noop_waker();
    let mut ss: Vec<_> = (0..m).map(|_| ch.create_stream()).collect();
    for s in ss.iter_mut() { let mut k = 0; while let Poll::Ready(Some(it)) = s.poll(&w) { drop(it); k += 1; if k > 1_000_000 { return Err("a stream keeps yielding".into()) } } }
    let n = ch.info().n as u32;
    let mut accepted = 0;
    for i in 0..n + 2 { if send_via(&**ch, Entry::Send, 0xF000_0000 + i as u64) == SendRes::Ok { accepted += 1 } else { break } }
    for s in ss.iter_mut() { while let Poll::Ready(Some(it)) = s.poll(&w) { drop(it) } }
    drop(ss);
    if accepted != n { return Err(format!("after every listener queue was drained and every handle released the channel accepted {accepted} event(s), not BUFFER_SIZE = {n}: pool slots are occupied for good")) }
    Ok(accepted)
}

fn retry(args: &Args, acc: &mut Acc, seed: u64, verbose: bool) {
    let mut rng = Rng::new(seed);
    let kind = *rng.pick(&kinds(args.only.as_deref()));
    let cfgs: Vec<(usize, usize)> = chan::cfgs_for(kind, false).into_iter().filter(|c| c.0 <= 8).collect();
    let (n, m) = *rng.pick(&cfgs);
    let nprod = 2 + rng.below(3) as usize;
    let per_prod = if args.lane == Lane::Ser { 1 + rng.below(4) as u32 } else { 200 + rng.below(2000) as u32 };
    let mut es = entries_for(kind); es.retain(|e| *e != Entry::Derived);
    if kind == Kind::UniMoveCrossbeam && args.lane == Lane::Ser { es = vec![Entry::Send] }      // the documented exclusion (setter sends wait once past their fullness test)
    let entries: Vec<Entry> = (0..nprod).map(|_| *rng.pick(&es)).collect();
    let mut rc = match args.lane { Lane::Ser => RunCfg::ser(seed, draw_strategy(&mut rng, nprod + 1, super::c01::PAUSE_SITES, 400)), Lane::Free => RunCfg::free(seed, rng.below(3) as u8) };
    rc.trace = verbose && args.get("trace").is_some();
    // a send that goes to sleep in a blocking wait (instead of answering "full") is what this property rules out: under the conductor nobody would ever wake it
    rc.blocked_token_holder_is_stall = true;
    let ch = chan::make(kind, n, m, false).expect("instantiation");
    let mut strm = ch.create_stream();
    if rc.lane == Lane::Free { crate::drive::preregister_noop(&mut strm) }
    let clog = Arc::new(ConsLog::default());
    let plogs: Vec<Arc<ProdLog>> = entries.iter().map(|_| Arc::new(ProdLog::default())).collect();
    let done = Arc::new(AtomicU32::new(0));
    let mut bodies: Vec<Body> = Vec::new();
    { let d = done.clone(); let np = nprod as u32; bodies.push(polling_consumer_body(strm, Hold::Release, clog.clone(), Arc::new(move || d.load(SeqCst) == np))); }
    for (p, (e, l)) in entries.iter().zip(plogs.iter()).enumerate() {
        let ids: Vec<u64> = (0..per_prod as u64).map(|i| ((p as u64 + 1) << 14) | (i + 1)).collect();
        let inner = producer_body(ch.clone(), *e, ids, u32::MAX - 1, l.clone());      // retry until accepted
        let d = done.clone();
        bodies.push(Box::new(move || { let _g = OnExit(Some(move || { d.fetch_add(1, SeqCst); })); inner() }));
    }
    let rep = sched::run(&rc, bodies);
    acc.account(&rep);
    acc.count(&format!("retry_runs[{}]", kind.name()), 1);
    let cfgj = J::obj().with("kind", J::s(kind.name())).with("N", J::i(n as i64)).with("M", J::i(m as i64)).with("producers", J::Arr(entries.iter().map(|e| J::s(e.name())).collect())).with("events_per_producer", J::i(per_prod as i64));
    if rep.inconclusive() { if acc.notes.len() < 10 { acc.notes.push(format!("inconclusive {:?}: {}", rep.outcome, cfgj.to_string())) } std::mem::forget(ch); return }
    let mut problems: Vec<(String, String)> = ch.take_problems().into_iter().map(|p| ("rejected_input_changed".to_string(), p)).collect();
    for (t, p) in &rep.panics { problems.push(("panic".into(), format!("thread t{t} panicked: {p}"))) }
    let rejections: u64 = plogs.iter().map(|l| l.calls.lock().unwrap().iter().filter(|c| !c.3).count() as u64).sum();
    acc.count("sends_rejected_then_retried", rejections);
    if let Outcome::Stall { spinners, .. } = &rep.outcome {
        problems.push(("blocked".into(), format!("a send neither succeeded nor returned: every runnable thread spins without anybody being able to make room ({})", spinners.iter().map(|(t, s)| format!("t{t}@{}", sched::site_name(*s))).collect::<Vec<_>>().join(", "))));
        std::mem::forget(ch.clone());
    } else if rep.outcome == Outcome::Done {
        let accepted: HashSet<u64> = plogs.iter().flat_map(|l| l.accepted.lock().unwrap().clone()).collect();
        let yielded = clog.ids();
        let yset: HashSet<u64> = yielded.iter().copied().collect();
        if yset.len() != yielded.len() { problems.push(("duplicate".into(), "an event was delivered twice".into())) }
        if accepted.len() != nprod * per_prod as usize { problems.push(("retry_failed".into(), format!("only {} of {} events were ever accepted although the consumer kept making room", accepted.len(), nprod * per_prod as usize))) }
        let lost = accepted.difference(&yset).count(); let extra = yset.difference(&accepted).count();
        if lost > 0 || extra > 0 { problems.push(("conservation".into(), format!("{lost} accepted event(s) never delivered, {extra} delivered event(s) never accepted (a rejected send must not deliver anything)"))) }
        if problems.is_empty() { if let Err(e) = probe_capacity(&ch) { problems.push(("capacity_leak".into(), e)) } else { acc.count("capacity_probes_ok", 1) } }
    }
    if rejections > 0 { acc.nontrivial(mix(rep.sched_hash, kind as u64 * 31 + n as u64)) }
    acc.sample(4, || J::obj().with("workload", J::s("retry")).with("config", cfgj.clone()).with("strategy", J::s(rc.strategy.describe())).with("rejections", J::i(rejections as i64)));
    if !problems.is_empty() {
        let sigs: Vec<J> = problems.iter().map(|p| J::obj().with("anomaly", J::s(&p.0)).with("kind", J::s(kind.name())).with("workload", J::s("retry"))).collect();
        let v = J::obj().with("what", J::s(problems.iter().map(|p| p.1.clone()).collect::<Vec<_>>().join("; "))).with("sigs", J::Arr(sigs)).with("config", cfgj)
            .with("strategy", J::s(rc.strategy.describe())).with("outcome", rep.outcome_json());
        file_violation(args, acc, seed, verbose, v);
    }
}

/// scenario `held` (SER, 1 run in 5 of the `retry` workload; kinds with reservations): the buffer is full because BUFFER_SIZE - 1 events are buffered and the last slot is
/// RESERVED by a thread that does not go on until everybody else has finished -- "all slots taken by events and reserved slots" is exactly when a send has to be
/// rejected, and the rejection has to come promptly (the conductor's stall verdict: the senders spin while the holder waits for them), through every entry point.
/// Afterwards the reservation is sent, everything is delivered exactly once and the emptied channel accepts BUFFER_SIZE events again.
fn held(args: &Args, acc: &mut Acc, seed: u64, verbose: bool) {
    let mut rng = Rng::new(seed);
    let ks: Vec<Kind> = kinds(args.only.as_deref()).into_iter().filter(|k| k.has_reserve()).collect();
    if ks.is_empty() { return retry(args, acc, seed, verbose) }
    let kind = *rng.pick(&ks);
    let cfgs: Vec<(usize, usize)> = chan::cfgs_for(kind, false).into_iter().filter(|c| c.0 <= 16).collect();
    let (n, m) = *rng.pick(&cfgs);
    let nsend = 1 + rng.below(3) as usize;
    let mut es = entries_for(kind); es.retain(|e| !matches!(e, Entry::Derived | Entry::SendAsyncSuspended));
    let scripts: Vec<Vec<Entry>> = (0..nsend).map(|_| (0..1 + rng.below(3)).map(|_| *rng.pick(&es)).collect()).collect();
    let mut rc = RunCfg::ser(seed, draw_strategy(&mut rng, nsend + 1, super::c01::PAUSE_SITES, 200));
    rc.trace = verbose && args.get("trace").is_some();
    // (a send of this scenario takes a few dozen steps; 12 000 steps inside one send, for every sender, with the holder waiting for them: they wait for the holder)
    rc.max_steps = 40_000; rc.per_op_step_bound = 12_000; rc.blocked_token_holder_is_stall = true;
    let ch = chan::make(kind, n, m, false).expect("instantiation");
    let mut strm = ch.create_stream();
    let cfgj = J::obj().with("kind", J::s(kind.name())).with("N", J::i(n as i64)).with("M", J::i(m as i64)).with("scenario", J::s("held: N-1 events buffered + 1 slot reserved and kept; other threads send"))
        .with("senders", J::Arr(scripts.iter().map(|s| J::s(format!("{:?}", s.iter().map(|e| e.name()).collect::<Vec<_>>()))).collect()));
    let mut problems: Vec<(String, String)> = Vec::new();
    let mut expected: Vec<u64> = Vec::new();
    for i in 0..n as u64 - 1 { let id = 0x100 + i; if send_via(&*ch, Entry::Send, id) == SendRes::Ok { expected.push(id) } else { problems.push(("rejected_with_room".into(), format!("send #{i} into the empty channel of {n} slots was rejected"))) } }
    let resv = ch.reserve();
    if resv.is_none() { problems.push(("rejected_with_room".into(), format!("reserve_slot was refused with {} of {n} slots taken", n - 1))) }
    let answers: Arc<std::sync::Mutex<Vec<(usize, Entry, SendRes)>>> = Arc::new(std::sync::Mutex::new(Vec::new()));
    let sent_reserved = Arc::new(AtomicU32::new(0));
    if let Some(r) = resv {
        ch.fill(&r, 0x1FF); expected.push(0x1FF);
        let mut bodies: Vec<Body> = Vec::new();
        { let (ch, sr) = (ch.clone(), sent_reserved.clone());
          bodies.push(Box::new(move || {
              // the holder: does not go on before everybody else has finished (or waits for it: that is the stall the conductor reports)
              sched::gate_wait();
              let mut tries = 0u32;
              while !ch.try_send_reserved(&r) { tries += 1; sched::spin(); if tries > 100_000 { return } }
              sr.store(1, SeqCst); sched::op_done();
          })); }
        for (t, sc) in scripts.iter().enumerate() {
            let (ch, sc, ans) = (ch.clone(), sc.clone(), answers.clone());
            bodies.push(Box::new(move || { for (k, e) in sc.into_iter().enumerate() { let r = send_via(&*ch, e, 0x1000 + ((t as u64) << 8) + k as u64); ans.lock().unwrap().push((t, e, r)); sched::op_done() } }));
        }
        let rep = sched::run(&rc, bodies);
        acc.account(&rep);
        acc.count(&format!("held_reservation_runs[{}]", kind.name()), 1);
        if rep.inconclusive() { if acc.notes.len() < 10 { acc.notes.push(format!("inconclusive {:?}: {}", rep.outcome, cfgj.to_string())) } std::mem::forget(ch); return }
        for p in ch.take_problems() { problems.push(("rejected_input_changed".into(), p)) }
        for (t, p) in &rep.panics { problems.push(("panic".into(), format!("thread t{t} panicked: {p}"))) }
        if let Outcome::Stall { spinners, .. } = &rep.outcome {
            problems.push(("blocked".into(), format!("a send into a full buffer (one slot reserved and not yet sent) was neither rejected nor accepted: it waits ({}) while the holder of the reservation waits for it to return", spinners.iter().map(|(t, s)| format!("t{t}@{}", sched::site_name(*s))).collect::<Vec<_>>().join(", "))));
            std::mem::forget(ch.clone());
        } else {
            let ans = answers.lock().unwrap().clone();
            acc.count("sends_rejected_while_a_reservation_filled_the_buffer", ans.iter().filter(|a| a.2 == SendRes::Full).count() as u64);
            for (t, e, r) in &ans { if *r == SendRes::Ok { problems.push(("accepted_beyond_capacity".into(), format!("sender {t}: {} was accepted although {} events were buffered and the last of the {n} slots was reserved", e.name(), n - 1))) } }
            if sent_reserved.load(SeqCst) != 1 { problems.push(("reserved_never_sent".into(), "try_send_reserved never answered true although nothing else was going on".into())) }
            if problems.is_empty() {
                let w = chan::noop_waker();
                let mut got: Vec<u64> = Vec::new();
                while let Poll::Ready(Some(it)) = strm.poll(&w) { got.push(it.id); drop(it); if got.len() > 4 * n + 8 { break } }
                if got != expected { problems.push(("conservation".into(), format!("the stream yielded {:?}; buffered + reserved were {:?} (a rejected send must not deliver anything)", got, expected))) }
                drop(strm);
                if problems.is_empty() { if let Err(e) = probe_capacity(&ch) { problems.push(("capacity_leak".into(), e)) } else { acc.count("capacity_probes_ok", 1) } }
            }
            acc.nontrivial(mix(rep.sched_hash, kind as u64 * 31 + n as u64 + 0x4e1d));
        }
        if !problems.is_empty() {
            let sigs: Vec<J> = problems.iter().map(|p| J::obj().with("anomaly", J::s(&p.0)).with("kind", J::s(kind.name())).with("workload", J::s("held"))).collect();
            let v = J::obj().with("what", J::s(problems.iter().map(|p| p.1.clone()).take(5).collect::<Vec<_>>().join("; "))).with("sigs", J::Arr(sigs)).with("config", cfgj).with("strategy", J::s(rc.strategy.describe())).with("outcome", rep.outcome_json());
            file_violation(args, acc, seed, verbose, v);
        }
        return
    }
    if !problems.is_empty() {
        let sigs: Vec<J> = problems.iter().map(|p| J::obj().with("anomaly", J::s(&p.0)).with("kind", J::s(kind.name())).with("workload", J::s("held"))).collect();
        file_violation(args, acc, seed, verbose, J::obj().with("what", J::s(problems.iter().map(|p| p.1.clone()).take(5).collect::<Vec<_>>().join("; "))).with("sigs", J::Arr(sigs)).with("config", cfgj));
    }
}

fn retry_or_held(args: &Args, acc: &mut Acc, seed: u64, verbose: bool) {
    if args.lane == Lane::Ser && seed % 5 == 0 { held(args, acc, seed, verbose) } else { retry(args, acc, seed, verbose) }
}

pub fn run(args: &Args, acc: &mut Acc) {
    if args.get("workload") == Some("cycles") { run_loop(args, acc, cycles) } else { run_loop(args, acc, retry_or_held) }
}
