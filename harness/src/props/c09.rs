//! C09 -- log (mmap) channel: full ordered replay; old/new subscriptions partition the history.
//!
//! 1-4 publishers append concurrently; listener threads subscribe at scheduler-chosen moments (new only / old+new split /
//! old+new joined -- also while publishers sit between position reservation and visibility) and consume at different speeds.
//! After the run a fresh joined subscription is drained on the main thread: that is the log's total order. Every joined
//! listener must have yielded exactly that sequence, every split pair old ++ new must equal it (the old stream ended by
//! itself), every new-only listener a gap-free suffix of it; it must contain every accepted event once and respect each
//! producer's order; every reference handed out must still point at the same address and the same value.

use crate::chan::{self, Kind, Sub};
use crate::common::{draw_strategy, file_violation, run_loop, Acc, Args};
use crate::drive::{producer_body, Entry, OnExit, ProdLog};
use crate::json::J;
use crate::sched::{self, mix, Body, Lane, Outcome, Rng, RunCfg};
use reactive_mutiny::verif as rv;
use std::collections::HashMap;
use std::sync::{atomic::{AtomicU32, Ordering::SeqCst}, Arc, Mutex};
use std::task::Poll;

#[derive(Clone, Debug)]
pub struct Cfg { pub m: usize, pub entries: Vec<Entry>, pub per_prod: u32, pub listeners: Vec<(Sub, u32)>, pub prefill: u32,
    /// subscriptions made, (partly) consumed and dropped one after the other before the run: the run's listeners get recycled stream ids and subscriber slots
    /// (kind of subscription, consume everything that is there?)
    pub prehistory: Vec<(Sub, bool)> }
impl Cfg {
    pub fn json(&self) -> J {
        J::obj().with("MAX_STREAMS", J::i(self.m as i64)).with("publishers", J::Arr(self.entries.iter().map(|e| J::s(e.name())).collect())).with("events_per_publisher", J::i(self.per_prod as i64))
            .with("events_before_anybody_subscribes", J::i(self.prefill as i64)).with("listeners(subscription, delay_steps)", J::s(format!("{:?}", self.listeners))).with("earlier_listeners_dropped_before_the_run(subscription, consumed_everything)", J::s(format!("{:?}", self.prehistory)))
    }
}

pub const PAUSE_SITES: &[u32] = &[rv::MMAP_PUBLISH_AFTER_RESERVE, rv::MMAP_PUBLISH_AFTER_SETTER, rv::MMAP_CONSUME_AFTER_RESERVE, rv::MMAP_SUBSCRIBE_AFTER_TAIL, rv::MMAP_CREATE_AFTER_SUBSCRIBE,
    rv::MMAP_CREATE_AFTER_ID, rv::SM_CREATE_AFTER_ID, rv::SM_CREATE_AFTER_FLAG, rv::MS_AFTER_CONSUME_NONE];

pub fn draw_cfg(rng: &mut Rng, lane: Lane) -> Cfg {
    let m = *rng.pick(&chan::MMAP_MS);
    let nprod = 1 + rng.below(4) as usize;
    let per_prod = if lane == Lane::Ser { 1 + rng.below(5) as u32 } else { 50 + rng.below(1500) as u32 };
    let entries: Vec<Entry> = (0..nprod).map(|_| *rng.pick(&[Entry::Send, Entry::SendWith])).collect();
    let mut listeners = Vec::new();
    let mut ids_left = m - 1;         // one id is kept for the canonical listener created after the run
    while ids_left > 0 && listeners.len() < 4 {
        let how = *rng.pick(&[Sub::New, Sub::Joined, Sub::Split, Sub::Split]);
        let need = if how == Sub::Split { 2 } else { 1 };
        if need > ids_left { if listeners.is_empty() { listeners.push((Sub::Joined, 0)); } break }
        ids_left -= need;
        listeners.push((how, rng.below(if lane == Lane::Ser { 60 } else { 2000 }) as u32));
        if rng.chance(1, 3) { break }
    }
    let prehistory: Vec<(Sub, bool)> = if rng.chance(1, 2) { Vec::new() } else { (0..1 + rng.below(m as u64 + 2)).map(|_| (*rng.pick(&[Sub::New, Sub::Joined, Sub::Split, Sub::Split]), rng.chance(2, 3))).collect() };
    Cfg { m, entries, per_prod, listeners, prefill: rng.below(4) as u32, prehistory }
}

#[derive(Default)]
struct LLog { old: Mutex<Vec<(u64, bool, usize)>>, new: Mutex<Vec<(u64, bool, usize)>>, old_ended: AtomicU32, held: Mutex<Vec<chan::Item>>, subscribed: AtomicU32,
    /// stamp taken right after the subscription call returned
    sub_stamp: std::sync::atomic::AtomicU64,
    /// the stream of new events answered end-of-stream (nobody ever tells it to end)
    new_ended: AtomicU32 }

pub fn one_run(cfg: &Cfg, rc: &RunCfg, acc: &mut Acc) -> (Option<J>, u64, bool) {
    let ch = chan::make(Kind::MultiMmap, 0, cfg.m, false).expect("instantiation");
    let mut accepted: Vec<u64> = Vec::new();
    for i in 0..cfg.prefill as u64 { if crate::drive::send_via(&*ch, Entry::Send, 0x70_0000 + i) == chan::SendRes::Ok { accepted.push(0x70_0000 + i) } }
    // earlier listeners: subscribed, (partly) consumed and dropped, one after the other -- what they leave behind (stream ids, subscriber slots) is recycled by the run's listeners
    if !cfg.prehistory.is_empty() { acc.count("runs_whose_listeners_recycle_the_ids_of_earlier_dropped_ones", 1) }
    for (how, all) in &cfg.prehistory {
        let w = chan::noop_waker();
        let mut ss = ch.subscribe(*how);
        for s in ss.iter_mut() { let mut k = 0; while let Poll::Ready(Some(it)) = s.poll(&w) { drop(it); k += 1; if !*all || k > 64 { break } } }
        drop(ss);
    }
    let plogs: Vec<Arc<ProdLog>> = cfg.entries.iter().map(|_| Arc::new(ProdLog::default())).collect();
    let llogs: Vec<Arc<LLog>> = cfg.listeners.iter().map(|_| Arc::new(LLog::default())).collect();
    let done = Arc::new(AtomicU32::new(0));
    let nprod = cfg.entries.len() as u32;
    let mut bodies: Vec<Body> = Vec::new();
    for ((how, delay), l) in cfg.listeners.iter().cloned().zip(llogs.iter().cloned()) {
        let (ch, d, lane) = (ch.clone(), done.clone(), rc.lane);
        bodies.push(Box::new(move || {
            for _ in 0..delay { if lane == Lane::Ser { sched::point() } else { std::hint::spin_loop() } }
            let mut ss = ch.subscribe(how);
            l.sub_stamp.store(crate::drive::stamp(), SeqCst);
            l.subscribed.store(1, SeqCst);
            sched::op_done();
            let w = chan::noop_waker();
            let (mut old, mut new) = if how == Sub::Split { let n = ss.pop().unwrap(); let o = ss.pop().unwrap(); (Some(o), n) } else { (None, ss.pop().unwrap()) };
            let mut empties = 0;
            let mut turn = 0u32;
            loop {
                turn += 1;
                // the old stream (if any) and the new one are polled alternately: they are independent streams
                if let Some(o) = old.as_mut() {
                    if turn % 2 == 0 {
                        match o.poll(&w) {
                            Poll::Ready(Some(it)) => { l.old.lock().unwrap().push((it.id, it.valid, it.addr)); l.held.lock().unwrap().push(it); sched::op_done(); continue }
                            Poll::Ready(None) => { l.old_ended.store(1, SeqCst); old = None; sched::op_done(); continue }
                            Poll::Pending => { sched::spin(); }
                        }
                    }
                }
                match new.poll(&w) {
                    Poll::Ready(Some(it)) => { l.new.lock().unwrap().push((it.id, it.valid, it.addr)); l.held.lock().unwrap().push(it); empties = 0; sched::op_done() }
                    Poll::Ready(None) => { l.new_ended.store(1, SeqCst); break }
                    Poll::Pending => { if d.load(SeqCst) == nprod && old.is_none() { empties += 1; if empties >= 2 { break } } sched::spin() }
                }
                if turn > 50_000_000 { break }
            }
            drop(old); drop(new);
        }));
    }
    let shift = 12;
    for (p, (e, l)) in cfg.entries.iter().zip(plogs.iter()).enumerate() {
        let ids: Vec<u64> = (0..cfg.per_prod as u64).map(|i| ((p as u64 + 1) << shift) | (i + 1)).collect();
        let inner = producer_body(ch.clone(), *e, ids, 0, l.clone());
        let d = done.clone();
        bodies.push(Box::new(move || { let _g = OnExit(Some(move || { d.fetch_add(1, SeqCst); })); inner() }));
    }
    let rep = sched::run(rc, bodies);
    acc.account(&rep);
    if rc.trace { sched::dump_trace(&rep) }
    if rep.inconclusive() { std::mem::forget(ch); return (None, rep.sched_hash, true) }
    let mut probs: Vec<(String, String)> = Vec::new();
    for (t, p) in &rep.panics { probs.push(("panic".into(), format!("thread t{t} panicked: {p}"))) }
    if let Outcome::Stall { .. } = rep.outcome { probs.push(("stall".into(), format!("run stalled: {}", rep.outcome_json().to_string()))); std::mem::forget(ch.clone()) }
    for l in &plogs { accepted.extend(l.accepted.lock().unwrap().iter()); if !l.rejected.lock().unwrap().is_empty() { probs.push(("rejected".into(), "the log channel rejected a send".into())) } }
    let mut split_during_publish = 0;
    if rep.outcome == Outcome::Done && probs.is_empty() {
        // the log's total order: a fresh joined subscription, drained now
        let mut canon: Vec<(u64, bool, usize)> = Vec::new();
        { let mut s = ch.subscribe(Sub::Joined).pop().unwrap(); let w = chan::noop_waker(); while let Poll::Ready(Some(it)) = s.poll(&w) { canon.push((it.id, it.valid, it.addr)); if canon.len() > accepted.len() + 8 { break } } }
        let canon_ids: Vec<u64> = canon.iter().map(|c| c.0).collect();
        let mut addr_of: HashMap<u64, usize> = HashMap::new();
        for (id, valid, addr) in &canon { if !*valid { probs.push(("corrupt".into(), format!("the log holds a corrupted event (id field {id:#x})"))) } if addr_of.insert(*id, *addr).is_some() { probs.push(("duplicate_in_log".into(), format!("event {id} appears twice in the full replay"))) } }
        for a in &accepted { if !addr_of.contains_key(a) { probs.push(("missing_in_log".into(), format!("accepted event {a} is missing from the full replay"))) } }
        if canon_ids.len() != accepted.len() { probs.push(("replay_length".into(), format!("{} events accepted, the full replay yields {}", accepted.len(), canon_ids.len()))) }
        let mut last: HashMap<u64, u64> = HashMap::new();
        for id in &canon_ids { let (p, k) = (id >> shift, id & ((1 << shift) - 1)); if p < 0x700 { if let Some(prev) = last.get(&p) { if *prev >= k { probs.push(("producer_order".into(), format!("the replay has event #{k} of publisher {p} after its #{prev}"))) } } last.insert(p, k); } }
        for (li, ((how, _), l)) in cfg.listeners.iter().zip(llogs.iter()).enumerate() {
            let old = l.old.lock().unwrap().clone(); let new = l.new.lock().unwrap().clone();
            let seq: Vec<u64> = old.iter().chain(new.iter()).map(|x| x.0).collect();
            for (id, valid, addr) in old.iter().chain(new.iter()) {
                if !*valid { probs.push(("corrupt".into(), format!("listener {li} yielded a corrupted event"))) }
                if let Some(a) = addr_of.get(id) { if a != addr { probs.push(("different_address".into(), format!("listener {li} got event {id} at {addr:#x}, the replay has it at {a:#x}"))) } }
            }
            match how {
                Sub::Joined => if seq != canon_ids { probs.push(("joined_differs".into(), format!("listener {li} (old+new joined) yielded {:?}, the log's order is {:?}", &seq[..seq.len().min(24)], &canon_ids[..canon_ids.len().min(24)]))) },
                Sub::Split => {
                    if l.old_ended.load(SeqCst) == 0 { probs.push(("old_stream_did_not_end".into(), format!("listener {li}: the stream of old events never answered end-of-stream"))) }
                    if seq != canon_ids { probs.push(("split_differs".into(), format!("listener {li} (old / new split at {}): old ++ new = {:?}, the log's order is {:?} (gap or overlap at the split point)", old.len(), &seq[..seq.len().min(24)], &canon_ids[..canon_ids.len().min(24)]))) }
                    if old.len() > cfg.prefill as usize && old.len() < canon_ids.len() { split_during_publish += 1 }
                }
                Sub::New => { let k = canon_ids.len().saturating_sub(seq.len()); if seq.len() > canon_ids.len() || canon_ids[k..] != seq[..] { probs.push(("new_not_a_suffix".into(), format!("listener {li} (new events only) yielded {:?}, which is not a gap-free suffix of the log's order {:?}", &seq[..seq.len().min(24)], &canon_ids[..canon_ids.len().min(24)]))) } }
            }
            // nobody told the stream of new events to end; and it polled until the publishers were done and nothing was left: whatever was sent after the
            // subscription call had returned was sent during its lifetime
            if l.new_ended.load(SeqCst) != 0 { probs.push(("new_stream_ended_by_itself".into(), format!("listener {li} ({how:?}): the stream for new events answered end-of-stream although nobody told it to end (it yielded {} event(s))", new.len()))) }
            else {
                let t_sub = l.sub_stamp.load(SeqCst);
                let got: std::collections::HashSet<u64> = seq.iter().copied().collect();
                let missed: Vec<u64> = plogs.iter().flat_map(|pl| pl.calls.lock().unwrap().iter().filter(|c| c.3 && c.1 > t_sub && !got.contains(&c.0)).map(|c| c.0).collect::<Vec<_>>()).collect();
                if !missed.is_empty() { probs.push(("missed_event_sent_after_subscription".into(), format!("listener {li} ({how:?}) never yielded {:?}, sent after its subscription call had returned", &missed[..missed.len().min(8)]))) }
            }
            // the references handed out still point at the same, unchanged events
            for it in l.held.lock().unwrap().iter() { let (id2, v2) = it.reread(); if id2 != it.id || !v2 { probs.push(("reference_changed".into(), format!("a reference handed out for event {} now reads {id2:#x} (valid={v2})", it.id))); break } }
        }
        acc.count("events_in_full_replay", canon_ids.len() as u64);
    }
    acc.count("splits_taken_while_publishing_was_under_way", split_during_publish);
    for l in &llogs { l.held.lock().unwrap().clear() }
    let v = if probs.is_empty() { None } else {
        probs.truncate(6);
        let mut sigs: Vec<J> = Vec::new();
        for (a, _) in &probs { let s = J::obj().with("anomaly", J::s(a)); if !sigs.iter().any(|x| x.to_string() == s.to_string()) { sigs.push(s) } }
        Some(J::obj().with("what", J::s(probs.iter().map(|p| p.1.clone()).collect::<Vec<_>>().join("; "))).with("sigs", J::Arr(sigs)).with("config", cfg.json()).with("strategy", J::s(rc.strategy.describe())).with("outcome", rep.outcome_json()))
    };
    (v, mix(rep.sched_hash, split_during_publish), false)
}

pub fn run(args: &Args, acc: &mut Acc) { run_loop(args, acc, single) }

fn single(args: &Args, acc: &mut Acc, seed: u64, verbose: bool) {
    let mut rng = Rng::new(seed);
    let cfg = draw_cfg(&mut rng, args.lane);
    let nthreads = cfg.listeners.len() + cfg.entries.len();
    let mut rc = match args.lane { Lane::Ser => RunCfg::ser(seed, draw_strategy(&mut rng, nthreads, PAUSE_SITES, 300)), Lane::Free => RunCfg::free(seed, rng.below(3) as u8) };
    rc.trace = verbose && args.get("trace").is_some();
    let (violation, hash, inconclusive) = one_run(&cfg, &rc, acc);
    for (h, _) in &cfg.listeners { acc.count(&format!("subscriptions[{:?}]", h), 1) }
    if inconclusive { return }
    acc.nontrivial(mix(hash, cfg.m as u64 + ((cfg.per_prod as u64) << 8) + ((cfg.listeners.len() as u64) << 30)));
    acc.sample(3, || J::obj().with("config", cfg.json()).with("strategy", J::s(rc.strategy.describe())));
    if let Some(v) = violation { file_violation(args, acc, seed, verbose, v) }
}
