//! C12 -- executor life cycle: close callback exactly once, after the last item; Uni callback after all executors; sequential
//! old -> new transition.
//!
//! Workloads (real tokio runtimes, paused-time current-thread or multi-thread):
//!   * `direct`     -- the item scripts of C11 through the five `StreamExecutor::spawn_*` functions; the close callback is stamped
//!                     on the ledger's clock: exactly one invocation, after the last item finished (or was cancelled), status
//!                     StreamEnded, finish delta >= start delta;
//!   * `uni`        -- a Uni with MAX_STREAMS 1/2/4 executors: the user callback runs exactly once, with every executor finished
//!                     (finished_executors_count == MAX_STREAMS, no stream running) and every accepted event processed;
//!   * `multi`      -- 2-3 Multi pipelines, one removed with flush_and_cancel_executor (=> ProgrammaticallyEnded, the others keep
//!                     receiving), the rest closed (=> StreamEnded); each callback exactly once;
//!   * `sequential` -- log channel, old events then `spawn_futures_oldies_executor(sequential_transition = on|off)` then new events:
//!                     with the flag on no new event may start before every old one has finished.

use crate::common::{file_violation, run_loop, Acc, Args};
use crate::json::J;
use crate::payload::{Payload, Tok};
use crate::sched::{mix, Rng};
use crate::tk::{self, Guard, Ledger, Rt};
use super::c06::EvId;
use super::c11;
use futures::StreamExt;
use reactive_mutiny::prelude::advanced::*;
use reactive_mutiny::prelude::{GenericUni, Instruments};
use reactive_mutiny::stream_executor::StreamExecutorStats;
use std::sync::atomic::{AtomicU32, AtomicU64, Ordering::SeqCst};
use std::sync::{Arc, Mutex};
use std::time::Duration;

const N: usize = 16;
const I: usize = Instruments::NoInstruments.into();

#[derive(Default)]
pub struct CbLog { pub calls: Mutex<Vec<(String, String, u64, u64, u64)>> }      // (who, status, start delta, finish delta, ledger stamp)
impl CbLog {
    fn record(&self, who: &str, stats: &Arc<dyn StreamExecutorStats + Send + Sync>, ledger: &Ledger) {
        let st = format!("{:?}", stats.executor_status().load(std::sync::atomic::Ordering::Relaxed));
        self.calls.lock().unwrap().push((who.to_string(), st, stats.execution_start_delta_nanos(), stats.execution_finish_delta_nanos(), ledger.stamp()));
    }
}

async fn work(ledger: Arc<Ledger>, slot: u32, sleep_ms: u8, paused: bool) -> u32 {
    let g = Guard::start(&ledger, slot);
    if sleep_ms > 0 { if paused { tokio::time::sleep(Duration::from_millis(sleep_ms as u64)).await } else { tk::yields(sleep_ms as u32).await } }
    g.complete();
    slot
}

fn work_sync(ledger: &Arc<Ledger>, slot: u32) -> u32 { let g = Guard::start(ledger, slot); g.complete(); slot }
type DynErr = Box<dyn std::error::Error + Send + Sync>;
pub const EXEC_NAMES: [&str; 4] = ["futures", "fallible futures", "fallibles (synchronous)", "plain (synchronous)"];

fn status_checks(who: &str, status: &str, start: u64, finish: u64, scheduled: bool, p: &mut Vec<(String, String)>) {
    let ok = status == "StreamEnded" || (status == "ProgrammaticallyEnded" && scheduled);
    if !ok { p.push(("status".into(), format!("{who}: the close callback found the executor in state {status}{}", if status == "ProgrammaticallyEnded" { " although it had not been scheduled to finish" } else { "" }))) }
    if start == u64::MAX || finish == u64::MAX || finish < start { p.push(("times".into(), format!("{who}: execution start delta {start} ns, finish delta {finish} ns at the close callback"))) }
}

// ------------------------------------------------------------------------------------------------ direct

fn direct(args: &Args, acc: &mut Acc, seed: u64, verbose: bool) {
    let mut rng = Rng::new(seed);
    let cfg = c11::draw_cfg(&mut rng, None, args.thorough());
    let (o, ledger) = c11::run_one(&cfg);
    acc.evaluations += 1; acc.count("direct_runs", 1);
    let Some(o) = o else { acc.inconclusive += 1; acc.count("inconclusive_watchdog", 1); return };
    let mut p: Vec<(String, String)> = Vec::new();
    let calls = ledger.close_calls.load(SeqCst);
    if calls != 1 { p.push(("callback_count".into(), format!("the close callback was invoked {calls} time(s)"))) }
    status_checks("executor", &o.status, o.start, o.finish, false, &mut p);
    // after the last item: at the callback no item may be un-finished
    let st = ledger.state.lock().unwrap().clone();
    if let Some(i) = st.iter().position(|s| *s == 1) { p.push(("callback_before_last_item".into(), format!("the close callback ran while item {i} was still being processed"))) }
    if let Some(i) = st.iter().position(|s| *s == 0) { p.push(("callback_before_last_item".into(), format!("the close callback ran although item {i} had not even been started"))) }
    if !cfg.script.is_empty() { acc.nontrivial(mix(seed, cfg.limit as u64)) }
    report(args, acc, seed, verbose, "direct", cfg.json(), p);
}

// ------------------------------------------------------------------------------------------------ uni

async fn uni_case<C, D>(m: u32, limit: u32, exec: u8, with_timeout: bool, events: Vec<u8>, paused: bool, ledger: Arc<Ledger>) -> (Vec<(String, String)>, u32)
where C: FullDuplexUniChannel<ItemType = Tok, DerivedItemType = D> + Send + Sync + 'static, D: EvId + Send + Sync + std::fmt::Debug + 'static {
    let cb = Arc::new(CbLog::default());
    let at_callback: Arc<Mutex<Vec<(u32, u32, usize)>>> = Arc::new(Mutex::new(Vec::new()));       // (finished_executors_count, running streams, unfinished items)
    let uni_slot: Arc<Mutex<Option<Arc<Uni<Tok, C, I, D>>>>> = Arc::new(Mutex::new(None));
    let (cb2, l2, ac2, us2) = (cb.clone(), ledger.clone(), at_callback.clone(), uni_slot.clone());
    let on_close = move |stats: Arc<dyn StreamExecutorStats + Send + Sync>| { async move {
        cb2.record("uni", &stats, &l2);
        let unfinished = l2.state.lock().unwrap().iter().filter(|s| **s == 1).count();
        if let Some(u) = us2.lock().unwrap().as_ref() { ac2.lock().unwrap().push((u.finished_executors_count.load(SeqCst), u.channel.running_streams_count(), unfinished)) }
    } };
    let ev = Arc::new(events.clone());
    let l1 = ledger.clone();
    let fto = if with_timeout { Duration::from_secs(10) } else { Duration::ZERO };     // (a timeout that never fires: the executors' timeout branches)
    let uni = Uni::<Tok, C, I, D>::new("rmv-c12");
    let uni = match exec {
        0 => uni.spawn_futures_executors(limit, fto, move |s| { let (l, ev) = (l1.clone(), ev.clone()); s.map(move |d: D| { let e = d.ev(); work(l.clone(), e as u32, ev[e as usize], paused) }) }, on_close),
        1 => uni.spawn_executors(limit, fto, move |s| { let (l, ev) = (l1.clone(), ev.clone()); s.map(move |d: D| { let e = d.ev(); let f = work(l.clone(), e as u32, ev[e as usize], paused); async move { Ok::<u32, DynErr>(f.await) } }) }, |_e| async {}, on_close),
        2 => uni.spawn_fallibles_executors(limit, move |s| { let l = l1.clone(); s.map(move |d: D| -> Result<u32, DynErr> { Ok(work_sync(&l, d.ev() as u32)) }) }, |_e| {}, on_close),
        _ => uni.spawn_non_futures_non_fallibles_executors(limit, move |s| { let l = l1.clone(); s.map(move |d: D| work_sync(&l, d.ev() as u32)) }, on_close),
    };
    *uni_slot.lock().unwrap() = Some(uni.clone());
    let mut accepted = 0u32;
    'sending: for e in 0..events.len() as u64 { let mut tries = 0; loop { if uni.send(Tok::make(e)).is_ok() { accepted += 1; break } tries += 1; if tries > 40 { break 'sending } tokio::time::sleep(Duration::from_millis(1)).await } }
    let _ = uni.close(Duration::ZERO).await;
    // callbacks are awaited by the executor tasks after the streams were dropped: give them the chance to run (twice as long as needed to catch a second call)
    for _ in 0..200 { if !cb.calls.lock().unwrap().is_empty() { break } tokio::time::sleep(Duration::from_millis(1)).await }
    for _ in 0..20 { tokio::time::sleep(Duration::from_millis(1)).await }
    let mut p = Vec::new();
    let calls = cb.calls.lock().unwrap().clone();
    if calls.len() != 1 { p.push(("callback_count".into(), format!("the Uni's close callback was invoked {} time(s) (MAX_STREAMS = {m})", calls.len()))) }
    for (who, status, start, finish, _) in &calls { status_checks(who, status, *start, *finish, false, &mut p) }
    for (fin, running, unfinished) in at_callback.lock().unwrap().iter() {
        if *fin != m { p.push(("uni_callback_before_all_executors".into(), format!("the Uni's close callback ran with finished_executors_count = {fin} of MAX_STREAMS = {m}"))) }
        if *running != 0 { p.push(("uni_callback_before_all_executors".into(), format!("the Uni's close callback ran while {running} stream(s) were still running"))) }
        if *unfinished != 0 { p.push(("callback_before_last_item".into(), format!("the Uni's close callback ran while {unfinished} item(s) were still being processed"))) }
    }
    *uni_slot.lock().unwrap() = None;
    (p, accepted)
}

// ------------------------------------------------------------------------------------------------ multi

async fn multi_case<C, D>(pipelines: usize, limit: u32, execs: Vec<u8>, with_timeout: bool, events: Vec<u8>, cancel_after: usize, paused: bool, ledger: Arc<Ledger>, close_timeout_ms: u64, recancel: bool) -> Vec<(String, String)>
where C: FullDuplexMultiChannel<ItemType = Tok, DerivedItemType = D> + Send + Sync + 'static, D: EvId + Send + Sync + std::fmt::Debug + 'static {
    static SEQ: AtomicU64 = AtomicU64::new(0);
    let name = format!("rmv-c12-{}-{}", std::process::id(), SEQ.fetch_add(1, SeqCst));
    let multi = Arc::new(Multi::<Tok, C, I, D>::new(name.clone()));
    let _ = std::fs::remove_file(format!("/tmp/{name}.mmap"));
    let cb = Arc::new(CbLog::default());
    let ne = events.len();
    // (a close with a deadline is meant to run into it: the items take ten times as long)
    let ev = Arc::new(if close_timeout_ms > 0 { events.iter().map(|e| e * 10).collect::<Vec<u8>>() } else { events.clone() });
    for pl in 0..pipelines {
        let (cb2, l2, l1, ev) = (cb.clone(), ledger.clone(), ledger.clone(), ev.clone());
        let who = format!("pipeline {pl}");
        let fto = if with_timeout { Duration::from_secs(10) } else { Duration::ZERO };
        let on_close = move |stats: Arc<dyn StreamExecutorStats + Send + Sync>| async move { cb2.record(&who, &stats, &l2) };
        match execs[pl] {
            0 => multi.spawn_futures_executor(limit, fto, format!("pipeline {pl}"), move |s| s.map(move |d: D| { let e = d.ev(); work(l1.clone(), (pl * ne) as u32 + e as u32, ev[e as usize], paused) }), on_close).await,
            1 => multi.spawn_executor(limit, fto, format!("pipeline {pl}"), move |s| s.map(move |d: D| { let e = d.ev(); let f = work(l1.clone(), (pl * ne) as u32 + e as u32, ev[e as usize], paused); async move { Ok::<u32, DynErr>(f.await) } }), |_e| async {}, on_close).await,
            2 => multi.spawn_fallibles_executor(limit, format!("pipeline {pl}"), move |s| s.map(move |d: D| -> Result<u32, DynErr> { Ok(work_sync(&l1, (pl * ne) as u32 + d.ev() as u32)) }), |_e| {}, on_close).await,
            _ => multi.spawn_non_futures_non_fallible_executor(limit, format!("pipeline {pl}"), move |s| s.map(move |d: D| work_sync(&l1, (pl * ne) as u32 + d.ev() as u32)), on_close).await,
        }.expect("spawn");
    }
    let mut p = Vec::new();
    // `recancel`: pipeline 0 is removed with a deadline of 1 ms (which may expire while it is busy); two events later, once it has ended, new pipelines are spawned
    // until every stream id is in use again (so one of them got pipeline 0's), and "pipeline 0" is cancelled a second time: that name no longer exists, nobody
    // may be disturbed -- the late pipelines process everything sent from then on and get their close callback at the close, not before
    let mut late: Vec<(String, Arc<AtomicU32>, u32)> = Vec::new();      // (name, events processed, events sent after its creation)
    for e in 0..ne as u64 {
        if e as usize == cancel_after {
            // pipeline 0 is removed on its own; everybody else goes on
            if recancel { let _ = multi.flush_and_cancel_executor("pipeline 0", Duration::from_millis(1)).await; }
            else if !multi.flush_and_cancel_executor("pipeline 0", Duration::ZERO).await { p.push(("cancel_executor".into(), "flush_and_cancel_executor answered false for a pipeline that exists".into())) }
        }
        if recancel && e as usize == cancel_after + 2 {
            for _ in 0..2000 { if cb.calls.lock().unwrap().iter().any(|c| c.0 == "pipeline 0") { break } tokio::time::sleep(Duration::from_millis(1)).await }
            if cb.calls.lock().unwrap().iter().any(|c| c.0 == "pipeline 0") {
                for i in 0..(4 - pipelines + 1) {
                    let (name, cnt, cb2, l2) = (format!("late pipeline {i}"), Arc::new(AtomicU32::new(0)), cb.clone(), ledger.clone());
                    let (c2, who) = (cnt.clone(), name.clone());
                    let on_close = move |stats: Arc<dyn StreamExecutorStats + Send + Sync>| async move { cb2.record(&who, &stats, &l2) };
                    multi.spawn_non_futures_non_fallible_executor(1, name.clone(), move |s| s.map(move |d: D| { c2.fetch_add(1, SeqCst); d.ev() as u32 }), on_close).await.expect("spawn");
                    late.push((name, cnt, 0));
                }
                let _ = multi.flush_and_cancel_executor("pipeline 0", Duration::ZERO).await;
            }
        }
        let mut tries = 0; loop { if multi.send(Tok::make(e)).is_ok() { for l in late.iter_mut() { l.2 += 1 } break } tries += 1; if tries > 40 { break } tokio::time::sleep(Duration::from_millis(1)).await }
    }
    if cancel_after >= ne { let _ = multi.flush_and_cancel_executor("pipeline 0", Duration::ZERO).await; }
    // a close whose deadline expires gives up waiting (and says so); the executors still end -- each with its one close callback, in an 'ended' state -- once their
    // streams, told to end, have run dry
    for _ in 0..5 { tokio::time::sleep(Duration::from_millis(1)).await }
    let before_close = cb.calls.lock().unwrap().clone();
    let closed = multi.close(Duration::from_millis(close_timeout_ms)).await;
    for l in &late { if before_close.iter().any(|c| c.0 == l.0) { p.push(("other_pipeline_disturbed".into(), format!("{}, spawned after 'pipeline 0' had ended (and holding a recycled stream id), got its close callback before the Multi was closed: cancelling the name 'pipeline 0' a second time ended it", l.0))) } }
    for _ in 0..if close_timeout_ms > 0 { 4000 } else { 200 } { if cb.calls.lock().unwrap().len() >= pipelines + late.len() { break } tokio::time::sleep(Duration::from_millis(1)).await }
    for _ in 0..20 { tokio::time::sleep(Duration::from_millis(1)).await }
    let calls = cb.calls.lock().unwrap().clone();
    for pl in 0..pipelines {
        let who = format!("pipeline {pl}");
        let mine: Vec<_> = calls.iter().filter(|c| c.0 == who).collect();
        if mine.len() != 1 { p.push(("callback_count".into(), format!("{who}: the close callback was invoked {} time(s)", mine.len()))); continue }
        status_checks(&who, &mine[0].1, mine[0].2, mine[0].3, pl == 0, &mut p);
        // after the last item of its stream
        let stamps = ledger.stamps.lock().unwrap();
        let late: Vec<u32> = (0..ne).map(|e| (pl * ne + e) as u32).filter(|s| { let st = stamps[*s as usize]; st.1 != 0 && (st.2 == 0 || st.2 > mine[0].4) }).collect();
        if !late.is_empty() { p.push(("callback_before_last_item".into(), format!("{who}: the close callback ran before item(s) {:?} of its stream had finished", &late[..late.len().min(6)]))) }
    }
    // the pipelines that were not removed received everything, also what was sent after the removal
    let st = ledger.state.lock().unwrap().clone();
    for l in &late {
        let n = cb.calls.lock().unwrap().iter().filter(|c| c.0 == l.0).count();
        if n != 1 { p.push(("callback_count".into(), format!("{}: the close callback was invoked {n} time(s)", l.0))) }
        if closed && l.1.load(SeqCst) != l.2 { p.push(("other_pipeline_disturbed".into(), format!("{} processed {} of the {} events sent after it was spawned", l.0, l.1.load(SeqCst), l.2))) }
    }
    if !closed && close_timeout_ms > 0 { p.push(("close_deadline_expired(not a problem)".into(), String::new())) }
    else { for pl in 1..pipelines { let missing = (0..ne).filter(|e| st[pl * ne + e] != 2).count(); if missing > 0 { p.push(("other_pipeline_disturbed".into(), format!("pipeline {pl}, which was not removed, did not process {missing} of the {ne} events"))) } } }
    p
}

// ------------------------------------------------------------------------------------------------ sequential transition (log channel)

pub async fn sequential_case(sequential: bool, limit: u32, exec: u8, with_timeout: bool, olds: Vec<u8>, news: Vec<u8>, paused: bool, ledger: Arc<Ledger>) -> Vec<(String, String)> {
    static SEQ: AtomicU64 = AtomicU64::new(0);
    let name = format!("rmv-c12s-{}-{}", std::process::id(), SEQ.fetch_add(1, SeqCst));
    let multi = Arc::new(Multi::<Tok, ChannelMultiMmapLog<Tok, 4>, I, &'static Tok>::new(name.clone()));
    let _ = std::fs::remove_file(format!("/tmp/{name}.mmap"));
    let (no, nn) = (olds.len(), news.len());
    for e in 0..no as u64 { let _ = multi.send(Tok::make(e)); }
    let cb = Arc::new(CbLog::default());
    let all: Arc<Vec<u8>> = Arc::new(olds.iter().chain(news.iter()).copied().collect());
    let (l1, l2, a1, a2) = (ledger.clone(), ledger.clone(), all.clone(), all.clone());
    let (cbo, cbn, lo, ln) = (cb.clone(), cb.clone(), ledger.clone(), ledger.clone());
    let started_new = Arc::new(AtomicU32::new(0));
    let fto = if with_timeout { Duration::from_secs(10) } else { Duration::ZERO };
    let close_o = move |stats: Arc<dyn StreamExecutorStats + Send + Sync>| async move { cbo.record("oldies", &stats, &lo) };
    let close_n = move |stats: Arc<dyn StreamExecutorStats + Send + Sync>| async move { cbn.record("newies", &stats, &ln) };
    match exec {
        0 => multi.spawn_futures_oldies_executor(limit, sequential, fto,
                "oldies", move |s| s.map(move |d: &'static Tok| { let e = d.id; work(l1.clone(), e as u32, a1[e as usize], paused) }), close_o,
                "newies", move |s| s.map(move |d: &'static Tok| { let e = d.id; work(l2.clone(), e as u32, a2[e as usize], paused) }), close_n).await,
        1 => multi.spawn_oldies_executor(limit, sequential, fto,
                "oldies", move |s| s.map(move |d: &'static Tok| { let e = d.id; let f = work(l1.clone(), e as u32, a1[e as usize], paused); async move { Ok::<u32, DynErr>(f.await) } }), close_o,
                "newies", move |s| s.map(move |d: &'static Tok| { let e = d.id; let f = work(l2.clone(), e as u32, a2[e as usize], paused); async move { Ok::<u32, DynErr>(f.await) } }), close_n,
                |_e| async {}).await,
        2 => multi.spawn_fallibles_oldies_executor(limit, sequential,
                "oldies", move |s| s.map(move |d: &'static Tok| -> Result<u32, DynErr> { Ok(work_sync(&l1, d.id as u32)) }), close_o,
                "newies", move |s| s.map(move |d: &'static Tok| -> Result<u32, DynErr> { Ok(work_sync(&l2, d.id as u32)) }), close_n,
                |_e| {}).await,
        _ => multi.spawn_non_futures_non_fallible_oldies_executor(limit, sequential,
                "oldies", move |s| s.map(move |d: &'static Tok| work_sync(&l1, d.id as u32)), close_o,
                "newies", move |s| s.map(move |d: &'static Tok| work_sync(&l2, d.id as u32)), close_n).await,
    }.expect("spawn");
    for e in no as u64..(no + nn) as u64 { let _ = multi.send(Tok::make(e)); if e % 2 == 0 { tokio::task::yield_now().await } }
    let _ = started_new;
    // let the old stream run dry and the transition happen, then close
    for _ in 0..400 { let st = ledger.state.lock().unwrap(); if st.iter().all(|s| *s == 2) { break } drop(st); tokio::time::sleep(Duration::from_millis(1)).await }
    let _ = multi.close(Duration::ZERO).await;
    for _ in 0..200 { if cb.calls.lock().unwrap().len() >= 2 { break } tokio::time::sleep(Duration::from_millis(1)).await }
    for _ in 0..20 { tokio::time::sleep(Duration::from_millis(1)).await }
    let mut p = Vec::new();
    let calls = cb.calls.lock().unwrap().clone();
    for who in ["oldies", "newies"] { let n = calls.iter().filter(|c| c.0 == who).count(); if n != 1 { p.push(("callback_count".into(), format!("{who}: the close callback was invoked {n} time(s)"))) } }
    for (who, status, start, finish, _) in &calls { status_checks(who, status, *start, *finish, false, &mut p) }
    let stamps = ledger.stamps.lock().unwrap().clone();
    let st = ledger.state.lock().unwrap().clone();
    let unprocessed = st.iter().filter(|s| **s != 2).count();
    if unprocessed > 0 { p.push(("event_not_processed".into(), format!("{unprocessed} of the {} old+new events were never processed by the oldies/newies pipelines", no + nn))) }
    if sequential && no > 0 && nn > 0 {
        let last_old_finish = (0..no).map(|e| stamps[e].2).max().unwrap_or(0);
        let first_new_start = (no..no + nn).map(|e| stamps[e].1).filter(|s| *s != 0).min().unwrap_or(u64::MAX);
        if first_new_start < last_old_finish { p.push(("new_event_before_last_old_one".into(), format!("sequential transition: a new event started being processed (stamp {first_new_start}) before the last old event had finished (stamp {last_old_finish})"))) }
    }
    p
}

// ------------------------------------------------------------------------------------------------ driver

fn report(args: &Args, acc: &mut Acc, seed: u64, verbose: bool, workload: &str, cfg: J, problems: Vec<(String, String)>) {
    if problems.is_empty() { return }
    let mut sigs: Vec<J> = Vec::new();
    for (a, _) in &problems { let s = J::obj().with("anomaly", J::s(a)).with("workload", J::s(workload)); if !sigs.iter().any(|x| x.to_string() == s.to_string()) { sigs.push(s) } }
    let v = J::obj().with("what", J::s(problems.iter().map(|p| p.1.clone()).take(5).collect::<Vec<_>>().join("; "))).with("sigs", J::Arr(sigs)).with("config", cfg).with("workload", J::s(workload));
    file_violation(args, acc, seed, verbose, v);
}

fn others(args: &Args, acc: &mut Acc, seed: u64, verbose: bool) {
    let mut rng = Rng::new(seed);
    let rt = if rng.chance(1, 2) { Rt::CurrentPaused } else { Rt::Multi(2 + rng.below(7) as usize) };
    let paused = rt == Rt::CurrentPaused;
    let limit = 1 + rng.below(4) as u32;
    let wd = Duration::from_secs(60);
    let with_timeout = rng.chance(1, 3);
    let which = match args.get("workload") { Some("uni") => 0, Some("multi") => 1, Some("sequential") => 2, _ => rng.below(3) };
    acc.evaluations += 1;
    match which {
        0 => {
            let m = *rng.pick(&[1u32, 2, 4]);
            let kind = *rng.pick(&["uni.movable.full_sync", "uni.movable.atomic", "uni.zero_copy.atomic"]);
            let exec = rng.below(4) as u8;
            let events: Vec<u8> = (0..rng.below(N as u64 + 1)).map(|_| rng.below(6) as u8).collect();
            let ledger = Ledger::new(events.len());
            let (ev, l) = (events.clone(), ledger.clone());
            macro_rules! go { ($ch:ident, $d:ty) => { match m { 1 => tk::run(rt, wd, move || uni_case::<$ch<Tok, N, 1>, $d>(1, limit, exec, with_timeout, ev, paused, l)), 2 => tk::run(rt, wd, move || uni_case::<$ch<Tok, N, 2>, $d>(2, limit, exec, with_timeout, ev, paused, l)), _ => tk::run(rt, wd, move || uni_case::<$ch<Tok, N, 4>, $d>(4, limit, exec, with_timeout, ev, paused, l)) } } }
            let r = match kind { "uni.movable.full_sync" => go!(ChannelUniMoveFullSync, Tok), "uni.movable.atomic" => go!(ChannelUniMoveAtomic, Tok), _ => go!(ChannelUniZeroCopyAtomic, OgreUnique<Tok, AllocatorAtomicArray<Tok, N>>) };
            acc.count(&format!("uni_runs[M={m}]"), 1); acc.count(&format!("uni_runs[executor: {}]", EXEC_NAMES[exec as usize]), 1);
            let cfg = J::obj().with("executor", J::s(EXEC_NAMES[exec as usize])).with("futures_timeout_set", J::Bool(with_timeout)).with("channel", J::s(kind)).with("MAX_STREAMS", J::i(m as i64)).with("concurrency_limit", J::i(limit as i64)).with("runtime", J::s(rt.describe())).with("per_event_sleep", J::s(format!("{:?}", events)));
            match r { None => { acc.inconclusive += 1; acc.count("inconclusive_watchdog", 1) } Some((p, _acc)) => { acc.nontrivial(mix(seed, m as u64)); acc.sample(2, || cfg.clone()); report(args, acc, seed, verbose, "uni", cfg, p) } }
        }
        1 => {
            let kind = *rng.pick(&["multi.arc.full_sync", "multi.ogre_arc.atomic", "multi.mmap_log", "multi.arc.crossbeam"]);
            let pipelines = 2 + rng.below(2) as usize;
            let events: Vec<u8> = (0..rng.below(N as u64)).map(|_| rng.below(5) as u8).collect();
            let cancel_after = rng.below(events.len() as u64 + 2) as usize;
            let execs: Vec<u8> = (0..pipelines).map(|_| rng.below(4) as u8).collect();
            let ex2 = execs.clone();
            let ledger = Ledger::new(events.len() * pipelines);
            let (ev, l) = (events.clone(), ledger.clone());
            // 1 run in 4: the final close has a deadline of a few milliseconds
            let ct = if rng.chance(1, 4) { 1 + rng.below(20) } else { 0 };
            // 1 run in 4 of the others: pipeline 0 is removed with a deadline, its id recycled by later pipelines, its name cancelled again
            let recancel = ct == 0 && cancel_after + 2 < events.len() && rng.chance(1, 3);
            let r = match kind {
                "multi.arc.full_sync" => tk::run(rt, wd, move || multi_case::<ChannelMultiArcFullSync<Tok, N, 4>, Arc<Tok>>(pipelines, limit, ex2, with_timeout, ev, cancel_after, paused, l, ct, recancel)),
                "multi.arc.crossbeam" => tk::run(rt, wd, move || multi_case::<ChannelMultiArcCrossbeam<Tok, N, 4>, Arc<Tok>>(pipelines, limit, ex2, with_timeout, ev, cancel_after, paused, l, ct, recancel)),
                "multi.ogre_arc.atomic" => tk::run(rt, wd, move || multi_case::<ChannelMultiOgreArcAtomic<Tok, N, 4>, OgreArc<Tok, AllocatorAtomicArray<Tok, N>>>(pipelines, limit, ex2, with_timeout, ev, cancel_after, paused, l, ct, recancel)),
                _ => tk::run(rt, wd, move || multi_case::<ChannelMultiMmapLog<Tok, 4>, &'static Tok>(pipelines, limit, ex2, with_timeout, ev, cancel_after, paused, l, ct, recancel)),
            };
            acc.count("multi_runs", 1); for e in &execs { acc.count(&format!("multi_pipelines[executor: {}]", EXEC_NAMES[*e as usize]), 1) }
            let cfg = J::obj().with("executors", J::s(format!("{:?}", execs.iter().map(|e| EXEC_NAMES[*e as usize]).collect::<Vec<_>>()))).with("futures_timeout_set", J::Bool(with_timeout)).with("channel", J::s(kind)).with("pipelines", J::i(pipelines as i64)).with("concurrency_limit", J::i(limit as i64)).with("runtime", J::s(rt.describe())).with("per_event_sleep", J::s(format!("{:?}", events))).with("pipeline_0_removed_before_event", J::i(cancel_after as i64)).with("final_close_deadline_ms(0 = none)", J::i(ct as i64)).with("pipeline_0_removed_with_a_1ms_deadline_then_its_id_recycled_and_its_name_cancelled_again", J::Bool(recancel));
            match r { None => { acc.inconclusive += 1; acc.count("inconclusive_watchdog", 1) } Some(mut p) => { acc.nontrivial(mix(seed, 77));
                if ct > 0 { acc.count("multi_runs_closed_with_a_deadline", 1) }
                if recancel { acc.count("multi_runs_in_which_a_removed_pipeline's_name_is_cancelled_again_after_its_stream_id_was_recycled", 1) }
                let before = p.len(); p.retain(|x| !x.0.starts_with("close_deadline_expired")); if p.len() != before { acc.count("multi_runs_whose_close_deadline_expired_with_executors_still_busy", 1) } acc.sample(2, || cfg.clone()); report(args, acc, seed, verbose, "multi", cfg, p) } }
        }
        _ => {
            let sequential = rng.chance(2, 3);
            let olds: Vec<u8> = (0..rng.below(8)).map(|_| rng.below(6) as u8).collect();
            let news: Vec<u8> = (0..rng.below(8)).map(|_| rng.below(6) as u8).collect();
            let ledger = Ledger::new(olds.len() + news.len());
            let (o, n, l) = (olds.clone(), news.clone(), ledger.clone());
            let exec = rng.below(4) as u8;
            let r = tk::run(rt, wd, move || sequential_case(sequential, limit, exec, with_timeout, o, n, paused, l));
            acc.count(&format!("sequential_transition_runs[executor: {}]", EXEC_NAMES[exec as usize]), 1);
            acc.count(if sequential { "sequential_transition_runs[on]" } else { "sequential_transition_runs[off]" }, 1);
            let cfg = J::obj().with("executor", J::s(EXEC_NAMES[exec as usize])).with("futures_timeout_set", J::Bool(with_timeout)).with("channel", J::s("multi.mmap_log")).with("sequential_transition", J::Bool(sequential)).with("concurrency_limit", J::i(limit as i64)).with("runtime", J::s(rt.describe())).with("old_events_sleep", J::s(format!("{:?}", olds))).with("new_events_sleep", J::s(format!("{:?}", news)));
            match r { None => { acc.inconclusive += 1; acc.count("inconclusive_watchdog", 1) } Some(p) => { if !olds.is_empty() && !news.is_empty() { acc.nontrivial(mix(seed, 99)) } acc.sample(2, || cfg.clone()); report(args, acc, seed, verbose, "sequential", cfg, p) } }
        }
    }
}

pub fn run(args: &Args, acc: &mut Acc) { if args.get("workload") == Some("direct") { run_loop(args, acc, direct) } else { run_loop(args, acc, others) } }
