//! C08 -- reserved slots: sent ones deliver what was written, cancelled vanish, none leak.
//!
//! Sequential scripts over {reserve, fill+send-reserved, cancel, plain send, receive, release, length} run against the
//! reference model of `seq.rs` (exhaustively up to a length bound on BUFFER_SIZE 2 and 4, randomly on larger buffers), each
//! from several sequence origins (0, next to the 32-bit wrap, anywhere); afterwards every open reservation is resolved in a
//! legal order and the emptied channel must accept exactly BUFFER_SIZE events. Workload `concurrent`: the same kind of
//! script on one thread against a concurrently polling consumer (SER / FREE).

use crate::chan::{self, Kind, Resv, SendRes};
use crate::common::{draw_strategy, file_violation, run_loop, Acc, Args};
use crate::drive::{polling_consumer_body, send_via, ConsLog, Entry, Hold, OnExit};
use crate::json::J;
use crate::sched::{self, mix, Body, Lane, Outcome, Rng, RunCfg};
use crate::seq::{self, Engine, Op, R};
use std::collections::HashSet;
use std::sync::{atomic::{AtomicU32, Ordering::SeqCst}, Arc, Mutex};

pub const KINDS: [Kind; 5] = [Kind::UniMoveAtomic, Kind::UniZcAtomic, Kind::UniZcFullSync, Kind::MultiOgreAtomic, Kind::MultiOgreFullSync];
fn kinds(only: Option<&str>) -> Vec<Kind> { KINDS.iter().copied().filter(|k| only.map(|o| k.name() == o).unwrap_or(true)).collect() }

pub fn alphabet(kind: Kind, full: bool) -> Vec<Op> {
    let mut a = vec![Op::Reserve, Op::SendResvOldest, Op::CancelNewest, Op::Send(Entry::Send), Op::Poll(0)];
    if kind.is_pooled() { a.push(Op::ReleaseOldest) }
    if full { a.extend([Op::SendResvNewest, Op::CancelOldest, Op::PollDrop(0), Op::Len, Op::Send(Entry::SendWith)]); if kind.is_pooled() { a.push(Op::ReleaseNewest) } }
    a
}

pub fn origins_window(n: usize) -> Vec<Option<u32>> {
    let n = n as u32;
    let mut v = vec![None, Some(n), Some(2 * n + 1)];
    for k in 0..=4 * n { v.push(Some(0u32.wrapping_sub(3 * n).wrapping_add(k))) }      // 2^32 - 3N ..= 2^32 + N
    v
}

/// runs one script from one origin; returns the problems found (model disagreements / panics)
pub fn run_script(kind: Kind, n: usize, m: usize, streams: usize, origin: Option<u32>, script: &[Op], cancel_rest: bool) -> (Vec<String>, Vec<R>, bool) {
    let r = std::panic::catch_unwind(std::panic::AssertUnwindSafe(|| {
        let mut eng = Engine::new(kind, n, m, streams, false, origin).expect("instantiation");
        let mut pruned = false;
        for op in script { if !eng.legal(*op) { pruned = true; break } eng.step(*op); if !eng.problems.is_empty() { break } }
        if eng.problems.is_empty() { eng.finish(cancel_rest) }
        let (t, p) = eng.teardown();
        (p, t, pruned)
    }));
    match r { Ok(x) => x, Err(e) => (vec![format!("the script panicked: {}", e.downcast_ref::<String>().cloned().or_else(|| e.downcast_ref::<&str>().map(|s| s.to_string())).unwrap_or_default())], Vec::new(), false) }
}

fn report(args: &Args, acc: &mut Acc, seed: u64, verbose: bool, kind: Kind, n: usize, origin: Option<u32>, script: &[Op], cancel_rest: bool, problems: Vec<String>, workload: &str) {
    let anomaly = if problems[0].contains("panicked") { "panic" } else if problems[0].contains("accepted") && problems[0].contains("not BUFFER_SIZE") { "capacity_after_history" } else if problems[0].contains("yielded") || problems[0].contains("found nothing") { "delivery" } else { "model_mismatch" };
    let near_wrap = origin.map(|o| o > u32::MAX - 8 * n as u32 || o < 2 * n as u32 && o > 0).unwrap_or(false);
    let v = J::obj().with("what", J::s(problems.join("; ")))
        .with("sigs", J::Arr(vec![J::obj().with("anomaly", J::s(anomaly)).with("kind", J::s(kind.name())).with("flavor", J::s(&args.flavor)).with("origin_next_to_the_32bit_wrap", J::Bool(near_wrap))]))
        .with("config", J::obj().with("kind", J::s(kind.name())).with("N", J::i(n as i64)).with("sequence_origin", origin.map(|o| J::i(o as i64)).unwrap_or(J::Null)).with("open_reservations_resolved_by", J::s(if cancel_rest { "cancelling newest-first" } else { "sending oldest-first" })))
        .with("script", seq::script_json(script)).with("workload", J::s(workload));
    file_violation(args, acc, seed, verbose, v);
}

// ------------------------------------------------------------------------------------------------ exhaustive (sharded DFS over legal scripts)

fn exhaustive(args: &Args, acc: &mut Acc) {
    let depth_for = |n: usize| -> usize { let d: usize = args.get("depth").and_then(|d| d.parse().ok()).unwrap_or(if args.thorough() { 8 } else { 6 }); if n == 2 { d } else { d.saturating_sub(2).max(3) } };
    let mut leaf_no = 0u64;
    for kind in kinds(args.only.as_deref()) {
        for (n, m) in [(2usize, 1usize), (4, 1)] {
            let alpha = alphabet(kind, false);
            let depth = depth_for(n);
            let win = origins_window(n);
            // iterative DFS over op indices; legality is decided by a dry engine at origin 0 while descending
            let mut stack: Vec<usize> = vec![0];
            let mut script: Vec<Op> = Vec::new();
            loop {
                if !acc.more() { acc.counters.add("exhaustive_enumeration_cut_short_by_the_time_budget", 1); return }
                let Some(top) = stack.last().copied() else { break };
                if top >= alpha.len() { stack.pop(); script.pop(); if let Some(t) = stack.last_mut() { *t += 1 } continue }
                script.truncate(stack.len() - 1);
                script.push(alpha[top]);
                // legal prefix?
                let legal = { let mut e = Engine::new(kind, n, m, 1, false, None).unwrap(); e.check_model = false; let mut ok = true; for op in &script { if !e.legal(*op) { ok = false; break } e.step(*op); } let _ = e.teardown(); ok };
                if !legal { *stack.last_mut().unwrap() += 1; continue }
                if script.len() < depth { stack.push(0); continue }
                // a leaf: this shard's?
                leaf_no += 1;
                if leaf_no % args.nshards == args.shard {
                    let origins = [None, Some(u32::MAX - 2), win[(leaf_no / args.nshards) as usize % win.len()]];
                    for (oi, o) in origins.iter().enumerate() {
                        let cancel_rest = (leaf_no / args.nshards + oi as u64) % 2 == 0;
                        let (problems, transcript, _) = run_script(kind, n, m, 1, *o, &script, cancel_rest);
                        acc.evaluations += 1;
                        if o.map(|x| x > u32::MAX - 64).unwrap_or(false) { acc.counters.add("scripts_run_across_the_32bit_wrap", 1) }
                        acc.nontrivial(mix(transcript.len() as u64 ^ leaf_no << 8, kind as u64 * 1000 + n as u64 * 10 + oi as u64));
                        if !problems.is_empty() { report(args, acc, leaf_no, false, kind, n, *o, &script, cancel_rest, problems, "exhaustive") }
                    }
                    acc.sample(2, || J::obj().with("workload", J::s("exhaustive")).with("kind", J::s(kind.name())).with("N", J::i(n as i64)).with("script", seq::script_json(&script)));
                }
                *stack.last_mut().unwrap() += 1;
            }
            acc.counters.add(&format!("exhaustive_done[{},N={},depth={}]", kind.name(), n, depth), 1);
        }
    }
    acc.counters.add("legal_scripts_enumerated(all shards count every leaf)", leaf_no as i64);
}

// ------------------------------------------------------------------------------------------------ random long scripts

fn random(args: &Args, acc: &mut Acc, seed: u64, verbose: bool) {
    let mut rng = Rng::new(seed);
    let kind = *rng.pick(&kinds(args.only.as_deref()));
    let cfgs: Vec<(usize, usize)> = chan::cfgs_for(kind, false);
    let (n, m) = *rng.pick(&cfgs);
    // (Multi kinds: one run in six has NO listener at all -- an accepted event is then released at once and must not keep its pool slot)
    let streams = if kind.is_multi() && rng.chance(1, 6) { 0 } else { 1 + rng.below(m.min(2) as u64) as usize };
    if streams == 0 { acc.count("random_scripts_on_a_multi_channel_without_listeners", 1) }
    let alpha = { let mut a = alphabet(kind, true); if streams > 1 { a.push(Op::Poll(1)); a.push(Op::PollDrop(1)) } a };
    let len = 5 + rng.below(200) as usize;
    let origin = match rng.below(4) { 0 => None, 1 | 2 => *rng.pick(&origins_window(n)), _ => Some(rng.next() as u32) };
    // build a legal script by consulting a dry engine
    let mut dry = Engine::new(kind, n, m, streams, false, None).unwrap(); dry.check_model = false;
    let mut script = Vec::new();
    for _ in 0..len {
        let mut op = *rng.pick(&alpha);
        let mut tries = 0; while !dry.legal(op) && tries < 20 { op = *rng.pick(&alpha); tries += 1 }
        if !dry.legal(op) { break }
        dry.step(op); script.push(op);
    }
    let _ = dry.teardown();
    let cancel_rest = rng.chance(1, 2);
    let (problems, transcript, _) = run_script(kind, n, m, streams, origin, &script, cancel_rest);
    acc.evaluations += 1;
    acc.count(&format!("random_scripts[{}]", kind.name()), 1); acc.count("script_steps", script.len() as u64);
    if origin.map(|x| x > u32::MAX - 8 * n as u32).unwrap_or(false) { acc.count("scripts_run_across_the_32bit_wrap", 1) }
    acc.nontrivial(transcript.iter().fold(seed, |h, r| mix(h, match r { R::Ok => 1, R::Full => 2, R::Got(i) => 3 + (*i << 4), R::Nothing => 4, R::True => 5, R::False => 6, R::Len(l) => 7 + ((*l as u64) << 4), _ => 8 })));
    acc.sample(2, || J::obj().with("workload", J::s("random")).with("kind", J::s(kind.name())).with("N", J::i(n as i64)).with("origin", origin.map(|o| J::i(o as i64)).unwrap_or(J::Null)).with("script", seq::script_json(&script[..script.len().min(40)])));
    if !problems.is_empty() { report(args, acc, seed, verbose, kind, n, origin, &script, cancel_rest, problems, "random") }
}

// ------------------------------------------------------------------------------------------------ concurrent with a polling consumer

fn concurrent(args: &Args, acc: &mut Acc, seed: u64, verbose: bool) {
    let mut rng = Rng::new(seed);
    let kind = *rng.pick(&kinds(args.only.as_deref()));
    let cfgs: Vec<(usize, usize)> = chan::cfgs_for(kind, false).into_iter().filter(|c| c.0 <= 16).collect();
    let (n, m) = *rng.pick(&cfgs);
    let origin = if rng.chance(1, 2) { *rng.pick(&origins_window(n)) } else { None };
    reactive_mutiny::verif::set_sequence_origin(origin);
    let ch = chan::make(kind, n, m, false).expect("instantiation");
    reactive_mutiny::verif::set_sequence_origin(None);
    let mut strm = ch.create_stream();
    if args.lane == Lane::Free { crate::drive::preregister_noop(&mut strm) }
    let clog = Arc::new(ConsLog::default());
    let done = Arc::new(AtomicU32::new(0));
    let sent: Arc<Mutex<Vec<u64>>> = Arc::new(Mutex::new(Vec::new()));
    let cancelled: Arc<Mutex<Vec<u64>>> = Arc::new(Mutex::new(Vec::new()));
    let probs: Arc<Mutex<Vec<String>>> = Arc::new(Mutex::new(Vec::new()));
    let steps = if args.lane == Lane::Ser { 4 + rng.below(12) } else { 200 + rng.below(3000) };
    let script_seed = rng.next();
    let movable_atomic = kind == Kind::UniMoveAtomic;
    let mut bodies: Vec<Body> = Vec::new();
    // several threads reserve / send / cancel at once (racing for the last free slots) where reservations are independent of each other; on the movable atomic channel
    // they are not (publication in reservation order, only the newest reservation can be cancelled): two threads holding reservations there may wait for each other by
    // documented design, so that kind keeps one reserving thread
    let nres: u32 = if movable_atomic { 1 } else { 1 + rng.below(3) as u32 };
    if nres > 1 { acc.count("concurrent_runs_with_several_reserving_threads", 1) }
    { let d = done.clone(); bodies.push(polling_consumer_body(strm, Hold::Release, clog.clone(), Arc::new(move || d.load(SeqCst) == nres))); }
    for t in 0..nres as u64 {
        let (ch, d, sent, cancelled, probs) = (ch.clone(), done.clone(), sent.clone(), cancelled.clone(), probs.clone());
        bodies.push(Box::new(move || {
            let _g = OnExit(Some(move || { d.fetch_add(1, SeqCst); }));
            let mut rng = Rng::new(script_seed ^ (t << 50));
            let mut open: Vec<(Resv, u64)> = Vec::new();
            let mut next = (t << 20) + 1;
            for _ in 0..steps {
                match rng.below(10) {
                    0..=3 => { if let Some(r) = ch.reserve() { let id = next; next += 1; ch.fill(&r, id); open.push((r, id)) } }
                    4..=6 => if !open.is_empty() {
                        let i = if movable_atomic || rng.chance(1, 2) { 0 } else { open.len() - 1 };
                        let mut tries = 0; while !ch.try_send_reserved(&open[i].0) { tries += 1; if tries > 100_000 { probs.lock().unwrap().push(format!("try_send_reserved never answered true for event {}", open[i].1)); break } sched::spin() }
                        if tries <= 100_000 { let (_, id) = open.remove(i); sent.lock().unwrap().push(id) }
                    },
                    7 => if !open.is_empty() {
                        let i = if movable_atomic || rng.chance(1, 2) { open.len() - 1 } else { 0 };
                        let mut tries = 0; while !ch.try_cancel(&open[i].0) { tries += 1; if tries > 100_000 { probs.lock().unwrap().push(format!("try_cancel_slot_reserve never answered true for the newest reservation (event {})", open[i].1)); break } sched::spin() }
                        if tries <= 100_000 { let (_, id) = open.remove(i); cancelled.lock().unwrap().push(id) }
                    },
                    _ => if !(movable_atomic && !open.is_empty()) { let id = next; next += 1; if send_via(&*ch, Entry::Send, id) == SendRes::Ok { sent.lock().unwrap().push(id) } }
                }
                sched::op_done();
            }
            // resolve what is still open: send oldest-first
            while !open.is_empty() { let mut tries = 0; while !ch.try_send_reserved(&open[0].0) { tries += 1; if tries > 100_000 { probs.lock().unwrap().push("an open reservation could not be sent at the end".into()); return } sched::spin() } let (_, id) = open.remove(0); sent.lock().unwrap().push(id); sched::op_done() }
        }));
    }
    let mut rc = match args.lane { Lane::Ser => RunCfg::ser(seed, draw_strategy(&mut rng, 1 + nres as usize, super::c01::PAUSE_SITES, 200)), Lane::Free => RunCfg::free(seed, rng.below(3) as u8) };
    rc.trace = verbose && args.get("trace").is_some();
    let rep = sched::run(&rc, bodies);
    acc.account(&rep);
    acc.count(&format!("concurrent_runs[{}]", kind.name()), 1);
    if rep.inconclusive() { std::mem::forget(ch); return }
    let mut problems: Vec<String> = probs.lock().unwrap().clone();
    for (t, p) in &rep.panics { problems.push(format!("thread t{t} panicked: {p}")) }
    if let Outcome::Stall { .. } = rep.outcome { problems.push(format!("run stalled: {}", rep.outcome_json().to_string())); std::mem::forget(ch.clone()) }
    if rep.outcome == Outcome::Done && problems.is_empty() {
        let sent_v = sent.lock().unwrap().clone(); let sent_s: HashSet<u64> = sent_v.iter().copied().collect();
        let ys = clog.yields.lock().unwrap().clone();
        let mut seen = HashSet::new();
        for (id, valid, _, _) in &ys {
            if !*valid { problems.push(format!("a delivered slot does not hold what was written into it (id field {id:#x})")) }
            if !seen.insert(*id) { problems.push(format!("event {id} was delivered twice")) }
            if cancelled.lock().unwrap().contains(id) { problems.push(format!("reservation {id} was cancelled (try_cancel_slot_reserve answered true) and delivered anyway")) }
            else if !sent_s.contains(id) { problems.push(format!("event {id} was delivered but never sent")) }
        }
        for id in &sent_v { if !seen.contains(id) { problems.push(format!("event {id} was sent (try_send_reserved / send answered success) and never delivered")) } }
        if problems.is_empty() { if let Err(e) = super::c16::probe_capacity(&ch) { problems.push(e) } else { acc.count("capacity_probes_ok", 1) } }
        acc.count("reservations_sent_or_plain_sends", sent_v.len() as u64); acc.count("reservations_cancelled", cancelled.lock().unwrap().len() as u64);
    }
    acc.nontrivial(mix(rep.sched_hash, kind as u64 * 7 + n as u64));
    if !problems.is_empty() { problems.truncate(5); report(args, acc, seed, verbose, kind, n, origin, &[], false, problems, "concurrent") }
}

pub fn run(args: &Args, acc: &mut Acc) {
    match args.get("workload") {
        Some("exhaustive") => exhaustive(args, acc),
        Some("concurrent") => run_loop(args, acc, concurrent),
        _ => run_loop(args, acc, random),
    }
}
