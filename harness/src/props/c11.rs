//! C11 -- executors account for every pipeline item exactly once; honour timeout and concurrency limit.
//!
//! Item scripts over {ok, error, slow, slow-then-error} are pushed through the five `spawn_*` functions of `StreamExecutor`
//! (x with/without futures timeout x 6 instrument settings x concurrency limit 1..8) on a paused-time current-thread runtime
//! (deterministic: "slow" sleeps 10x the timeout in virtual time) or a multi-thread runtime ("slow" never completes by itself,
//! "ok"/"error" are ready at their first poll -- `tokio::time::timeout` polls the inner future before looking at the deadline, so
//! no wall-clock race can flip a category). Every item future keeps a ledger: in-flight gauge (first poll .. completion or
//! drop), completed vs. dropped-before-completion; the error callback records the failing item's id.

use crate::common::{file_violation, run_loop, Acc, Args};
use crate::json::J;
use crate::sched::{mix, Rng};
use crate::tk::{self, Guard, ItemError, Ledger, Rt};
use futures::stream;
use reactive_mutiny::prelude::Instruments;
use reactive_mutiny::stream_executor::{StreamExecutor, StreamExecutorStats};
use std::sync::atomic::Ordering::SeqCst;
use std::sync::Arc;
use std::time::Duration;

#[derive(Clone, Copy, Debug, PartialEq, Eq)]
pub enum Beh { Ok { y: u8, sleep: u8 }, Err { y: u8, sleep: u8 }, Slow, SlowErr }

#[derive(Clone, Copy, Debug, PartialEq, Eq)]
pub enum Variant { FuturesFallible, FuturesNonFallible, Fallibles, NonFuturesFallible, NonFuturesNonFallible }

#[derive(Clone, Debug)]
pub struct Cfg { pub variant: Variant, pub timeout_ms: u64, pub instruments: usize, pub limit: u32, pub rt: Rt, pub script: Vec<Beh>,
    /// multi-thread runtime with a timeout only: the first item reaches the executor this many (real) milliseconds after the executor was spawned
    /// (an executor that has lived longer than its timeout), and ok / error items then suspend for a few yields
    pub aged_ms: u64,
    /// futures + fallible executor: the (asynchronous) error callback takes this long (virtual time under the paused runtime) -- the futures timeout is about the
    /// item's future, not about what the executor does with its outcome: a failed item stays a failed item however long its error callback takes
    pub err_cb_ms: u64 }
impl Cfg {
    pub fn json(&self) -> J {
        J::obj().with("executor", J::s(format!("{:?}", self.variant))).with("futures_timeout_ms", J::i(self.timeout_ms as i64)).with("instruments", J::s(INSTR_NAMES[self.instruments])).with("concurrency_limit", J::i(self.limit as i64))
            .with("runtime", J::s(self.rt.describe())).with("items", J::s(format!("{:?}", &self.script[..self.script.len().min(40)]))).with("n_items", J::i(self.script.len() as i64)).with("first_item_arrives_after_ms", J::i(self.aged_ms as i64)).with("error_callback_takes_ms", J::i(self.err_cb_ms as i64))
    }
}

pub const INSTR_NAMES: [&str; 6] = ["NoInstruments", "LogsWithoutMetrics", "LogsWithMetrics", "LogsWithExpensiveMetrics", "MetricsWithoutLogs", "ExpensiveMetricsWithoutLogs"];
pub const INSTR: [usize; 6] = [Instruments::NoInstruments.into(), Instruments::LogsWithoutMetrics.into(), Instruments::LogsWithMetrics.into(), Instruments::LogsWithExpensiveMetrics.into(), Instruments::MetricsWithoutLogs.into(), Instruments::ExpensiveMetricsWithoutLogs.into()];
/// the four settings whose name says "Metrics" (decided here by name, not by asking the library's own predicates)
pub fn metrics_on(i: usize) -> bool { i >= 2 }

pub struct Observed { pub ok: u32, pub timed_out: u32, pub failed: u32, pub status: String, pub start: u64, pub finish: u64 }

fn item_future(ledger: Arc<Ledger>, i: u32, beh: Beh, paused: bool, timeout_ms: u64) -> impl std::future::Future<Output = Result<u32, Box<dyn std::error::Error + Send + Sync>>> + Send {
    let born = tokio::time::Instant::now();
    item_future_(ledger, i, beh, paused, timeout_ms, born)
}
async fn item_future_(ledger: Arc<Ledger>, i: u32, beh: Beh, paused: bool, timeout_ms: u64, born: tokio::time::Instant) -> Result<u32, Box<dyn std::error::Error + Send + Sync>> {
    let g = Guard::start_born(&ledger, i, born);
    let slow = |ms: u64| async move {
        if ms > 0 { if paused { tokio::time::sleep(Duration::from_millis(10 * ms)).await } else { futures::future::pending::<()>().await } }
        else if paused { tokio::time::sleep(Duration::from_millis(50)).await } else { tk::yields(5).await }
    };
    let quick = |y: u8, sleep: u8| async move { tk::yields(y as u32).await; if paused && sleep > 0 { tokio::time::sleep(Duration::from_millis(sleep as u64)).await } };
    match beh {
        Beh::Ok { y, sleep } => { quick(y, sleep).await; g.complete(); Ok(i) }
        Beh::Err { y, sleep } => { quick(y, sleep).await; g.complete(); Err(Box::new(ItemError(i))) }
        Beh::Slow => { slow(timeout_ms).await; g.complete(); Ok(i) }
        Beh::SlowErr => { slow(timeout_ms).await; g.complete(); Err(Box::new(ItemError(i))) }
    }
}

/// delays the first element of `s` by `ms` milliseconds (the executor is already running and waiting for it)
fn aged<S: futures::Stream + Send + 'static>(s: S, ms: u64) -> impl futures::Stream<Item = S::Item> + Send + 'static where S::Item: Send + 'static {
    use futures::StreamExt;
    stream::once(async move { if ms > 0 { tokio::time::sleep(Duration::from_millis(ms)).await } }).map(|_| None).chain(s.map(Some)).filter_map(futures::future::ready)
}

async fn drive<const I: usize>(cfg: Cfg, ledger: Arc<Ledger>) -> Observed {
    let (tx, rx) = tokio::sync::oneshot::channel::<Observed>();
    let exec = if cfg.timeout_ms > 0 { StreamExecutor::<I>::with_futures_timeout("rmv-c11", Duration::from_millis(cfg.timeout_ms)) } else { StreamExecutor::<I>::new("rmv-c11") };
    let l2 = ledger.clone();
    let tx = std::sync::Mutex::new(Some(tx));
    let on_close = move |stats: Arc<dyn StreamExecutorStats + Send + Sync>| { let l = l2.clone(); let tx = tx.lock().unwrap().take(); async move {
        l.close_calls.fetch_add(1, SeqCst);
        let o = Observed { ok: stats.ok_events_avg_future_duration().probe().0, timed_out: stats.timed_out_events_avg_future_duration().probe().0, failed: stats.failed_events_avg_future_duration().probe().0,
                           status: format!("{:?}", stats.executor_status().load(std::sync::atomic::Ordering::Relaxed)), start: stats.execution_start_delta_nanos(), finish: stats.execution_finish_delta_nanos() };
        if let Some(tx) = tx { let _ = tx.send(o); }
    } };
    let paused = cfg.rt == Rt::CurrentPaused;
    let script = cfg.script.clone();
    let n = script.len();
    match cfg.variant {
        Variant::FuturesFallible => {
            let (l3, l4) = (ledger.clone(), ledger.clone());
            let cb_ms = cfg.err_cb_ms;
            let on_err = move |e: Box<dyn std::error::Error + Send + Sync>| { let l = l4.clone(); async move {
                let id = e.downcast_ref::<ItemError>().map(|x| x.0).unwrap_or(u32::MAX);
                l.err_callbacks.lock().unwrap().push(id);
                if cb_ms > 0 { tk::yields(1).await; tokio::time::sleep(Duration::from_millis(cb_ms)).await }
                l.err_callbacks_completed.lock().unwrap().push(id);
            } };
            let t = cfg.timeout_ms;
            exec.spawn_executor(cfg.limit, on_err, on_close, aged(stream::iter(script.into_iter().enumerate().map(move |(i, b)| item_future(l3.clone(), i as u32, b, paused, t))), cfg.aged_ms));
        }
        Variant::FuturesNonFallible => {
            let l3 = ledger.clone(); let t = cfg.timeout_ms;
            exec.spawn_futures_executor(cfg.limit, on_close, aged(stream::iter(script.into_iter().enumerate().map(move |(i, b)| { let l = l3.clone(); async move { item_future(l, i as u32, b, paused, t).await.unwrap_or(u32::MAX) } })), cfg.aged_ms));
        }
        Variant::Fallibles | Variant::NonFuturesFallible => {
            let (l3, l4) = (ledger.clone(), ledger.clone());
            let items = stream::iter(script.into_iter().enumerate().map(move |(i, b)| -> Result<u32, Box<dyn std::error::Error + Send + Sync>> { l3.state.lock().unwrap()[i] = 2; if matches!(b, Beh::Ok { .. }) { Ok(i as u32) } else { Err(Box::new(ItemError(i as u32))) } }));
            if cfg.variant == Variant::Fallibles {
                let on_err = move |e: Box<dyn std::error::Error + Send + Sync>| { let id = e.downcast_ref::<ItemError>().map(|x| x.0).unwrap_or(u32::MAX); l4.err_callbacks.lock().unwrap().push(id); l4.err_callbacks_completed.lock().unwrap().push(id) };
                exec.spawn_fallibles_executor(cfg.limit, on_err, on_close, items);
            } else { exec.spawn_non_futures_executor(cfg.limit, on_close, items); }
        }
        Variant::NonFuturesNonFallible => {
            let l3 = ledger.clone();
            exec.spawn_non_futures_non_fallibles_executor(cfg.limit, on_close, stream::iter((0..n).map(move |i| { l3.state.lock().unwrap()[i] = 2; i as u32 })));
        }
    }
    rx.await.unwrap_or(Observed { ok: 0, timed_out: 0, failed: 0, status: "close callback dropped without being called".into(), start: 0, finish: 0 })
}

pub fn draw_cfg(rng: &mut Rng, only: Option<&str>, thorough: bool) -> Cfg {
    let variants = [Variant::FuturesFallible, Variant::FuturesFallible, Variant::FuturesNonFallible, Variant::Fallibles, Variant::NonFuturesFallible, Variant::NonFuturesNonFallible];
    let mut variant = *rng.pick(&variants);
    if let Some(o) = only { if let Some(v) = variants.iter().find(|v| format!("{:?}", v) == o) { variant = *v } }
    let rt = if rng.chance(1, 2) { Rt::CurrentPaused } else { Rt::Multi(2 + rng.below(7) as usize) };
    let futures = matches!(variant, Variant::FuturesFallible | Variant::FuturesNonFallible);
    let timeout_ms = if futures && rng.chance(1, 2) { if rt == Rt::CurrentPaused { 100 } else { 25 } } else { 0 };
    let len = if rng.chance(1, 4) { rng.below(5) as usize } else { rng.below(if thorough { 65 } else { 33 }) as usize };
    let paused = rt == Rt::CurrentPaused;
    let aged_ms = if !paused && timeout_ms > 0 && rng.chance(1, 3) { 2 * timeout_ms } else { 0 };
    let mut script = Vec::new();
    for _ in 0..len {
        // on the multi-thread runtime with a timeout, ok / error items are ready at their first poll (see the module doc) -- except in
        // the `aged` runs, where they suspend for a few yields and the verdict rests on how long a cancelled item had been in flight
        let (y, sleep) = if aged_ms > 0 { (1 + rng.below(3) as u8, 0) } else if !paused && timeout_ms > 0 { (0, 0) } else { (rng.below(4) as u8, if paused { rng.below(6) as u8 } else { 0 }) };
        let b = match (variant, rng.below(10)) {
            (Variant::FuturesFallible, 0..=4) => Beh::Ok { y, sleep }, (Variant::FuturesFallible, 5..=6) => Beh::Err { y, sleep }, (Variant::FuturesFallible, 7..=8) => Beh::Slow, (Variant::FuturesFallible, _) => Beh::SlowErr,
            (Variant::FuturesNonFallible, 0..=6) => Beh::Ok { y, sleep }, (Variant::FuturesNonFallible, _) => Beh::Slow,
            (Variant::NonFuturesNonFallible, _) => Beh::Ok { y: 0, sleep: 0 },
            (_, 0..=6) => Beh::Ok { y: 0, sleep: 0 }, (_, _) => Beh::Err { y: 0, sleep: 0 },
        };
        script.push(b);
    }
    // on the multi-thread runtime keep the number of never-completing items small (each costs one real timeout)
    if !paused && timeout_ms > 0 { let mut slow = 0; for b in script.iter_mut() { if matches!(b, Beh::Slow | Beh::SlowErr) { slow += 1; if slow > 6 { *b = Beh::Ok { y: 0, sleep: 0 } } } } }
    // slow error callbacks: longer than the timeout (when there is one), or anything up to 300 ms of virtual time; on the multi-thread runtime the time is real, so only a few failing items then
    let mut err_cb_ms = 0;
    if variant == Variant::FuturesFallible && rng.chance(1, 3) {
        err_cb_ms = if timeout_ms > 0 && rng.chance(2, 3) { 2 * timeout_ms } else if paused { 1 + rng.below(300) } else { 1 + rng.below(30) };
        if !paused { let mut errs = 0; for b in script.iter_mut() { if matches!(b, Beh::Err { .. } | Beh::SlowErr) { errs += 1; if errs > 4 { *b = Beh::Ok { y: 0, sleep: 0 } } } } }
    }
    Cfg { variant, timeout_ms, instruments: rng.below(6) as usize, limit: 1 + rng.below(8) as u32, rt, script, aged_ms, err_cb_ms }
}

pub fn evaluate(cfg: &Cfg, ledger: &Ledger, o: &Observed) -> Vec<(String, String)> {
    let mut p: Vec<(String, String)> = Vec::new();
    let n = cfg.script.len() as u32;
    let with_timeout = cfg.timeout_ms > 0;
    let count = |f: &dyn Fn(&Beh) -> bool| cfg.script.iter().filter(|b| f(b)).count() as u32;
    let (n_ok, n_err, n_slow, n_slowerr) = (count(&|b| matches!(b, Beh::Ok { .. })), count(&|b| matches!(b, Beh::Err { .. })), count(&|b| matches!(b, Beh::Slow)), count(&|b| matches!(b, Beh::SlowErr)));
    let (mut exp_ok, mut exp_failed, mut exp_timed) = if with_timeout { (n_ok, n_err, n_slow + n_slowerr) } else if cfg.variant == Variant::FuturesNonFallible { (n, 0, 0) } else { (n_ok + n_slow, n_err + n_slowerr, 0) };
    // A timeout may cancel an item only after the item has been in flight for the whole timeout (measured by the item itself, construction of its future .. drop, on the
    // runtime's clock). An ok / error item that WAS in flight that long -- possible on the multi-thread runtime when the machine stalls -- is legitimately
    // timed out and is accounted as such; one cancelled earlier is a violation whatever the load.
    let cancelled: Vec<(u32, u64)> = ledger.cancelled_after_us.lock().unwrap().clone();
    let mut legit_timeouts: Vec<u32> = Vec::new();
    for (i, us) in &cancelled {
        if with_timeout && *us < cfg.timeout_ms * 1000 { p.push(("item_timed_out_early".into(), format!("item {i} ({:?}) was cancelled {us} us after its future was handed to the executor; the futures timeout is {} ms", cfg.script[*i as usize], cfg.timeout_ms))) }
        else if with_timeout { match cfg.script[*i as usize] { Beh::Ok { .. } => { exp_ok -= 1; exp_timed += 1; legit_timeouts.push(*i) } Beh::Err { .. } => { exp_failed -= 1; exp_timed += 1; legit_timeouts.push(*i) } _ => {} } }
        if p.len() > 6 { break }
    }
    if metrics_on(cfg.instruments) {
        if o.ok + o.timed_out + o.failed != n { p.push(("counters_do_not_add_up".into(), format!("{n} items went through the executor, the counters say ok={} + timed_out={} + failed={} = {}", o.ok, o.timed_out, o.failed, o.ok + o.timed_out + o.failed))) }
        if o.ok != exp_ok { p.push(("ok_count".into(), format!("{exp_ok} item(s) succeeded, the ok counter says {}", o.ok))) }
        if o.failed != exp_failed { p.push(("failed_count".into(), format!("{exp_failed} item(s) failed, the failed counter says {}", o.failed))) }
        if o.timed_out != exp_timed { p.push(("timed_out_count".into(), format!("{exp_timed} item(s) took longer than the timeout, the timed-out counter says {}", o.timed_out))) }
    }
    // the error callback: exactly once per failed item, never otherwise
    if matches!(cfg.variant, Variant::FuturesFallible | Variant::Fallibles) {
        let mut cbs = ledger.err_callbacks.lock().unwrap().clone(); cbs.sort();
        let mut expect: Vec<u32> = cfg.script.iter().enumerate().filter(|(i, b)| (matches!(b, Beh::Err { .. }) && !legit_timeouts.contains(&(*i as u32))) || (!with_timeout && matches!(b, Beh::SlowErr))).map(|(i, _)| i as u32).collect(); expect.sort();
        if cbs != expect { p.push(("error_callback".into(), format!("the error callback was invoked for items {:?}, the failed items are {:?}", &cbs[..cbs.len().min(20)], &expect[..expect.len().min(20)]))) }
        // ... and each invocation has run to its end by the time the executor reports the end of the stream (the executor awaits it as part of processing the item)
        let mut done = ledger.err_callbacks_completed.lock().unwrap().clone(); done.sort();
        if done != cbs { p.push(("error_callback_did_not_run_to_completion".into(), format!("the error callback was started for items {:?} but had run to its end only for {:?} when the close callback ran (it takes {} ms)", &cbs[..cbs.len().min(20)], &done[..done.len().min(20)], cfg.err_cb_ms))) }
    }
    // every item was processed (a failed or timed-out one does not stop the later ones); slow ones were cancelled when a timeout is set
    let st = ledger.state.lock().unwrap().clone();
    for (i, b) in cfg.script.iter().enumerate() {
        let slow = matches!(b, Beh::Slow | Beh::SlowErr);
        match (st[i], slow && with_timeout) {
            (0, _) => p.push(("item_never_processed".into(), format!("item {i} ({:?}) was never started although the stream yielded it", b))),
            (1, _) => p.push(("item_still_running_at_close".into(), format!("item {i} ({:?}) was started and is neither completed nor dropped when the close callback runs", b))),
            (2, true) => p.push(("slow_item_not_cancelled".into(), format!("item {i} ({:?}) takes 10x the timeout and was allowed to complete", b))),
            (3, false) if legit_timeouts.contains(&(i as u32)) => {}
            (3, false) => p.push(("item_cancelled".into(), format!("item {i} ({:?}) was dropped before completing although no timeout applies to it", b))),
            _ => {}
        }
        if p.len() > 8 { break }
    }
    if matches!(cfg.variant, Variant::FuturesFallible | Variant::FuturesNonFallible) {
        let max = ledger.max_in_flight.load(SeqCst);
        if max > cfg.limit as i32 { p.push(("concurrency_limit_exceeded".into(), format!("{max} item futures were in progress at one instant, the concurrency limit is {}", cfg.limit))) }
    }
    p
}

macro_rules! with_instr { ($idx:expr, $cfg:expr, $ledger:expr) => { match $idx {
    0 => tk::run($cfg.rt, Duration::from_secs(60), { let (c, l) = ($cfg.clone(), $ledger.clone()); move || drive::<{ Instruments::NoInstruments.into() }>(c, l) }),
    1 => tk::run($cfg.rt, Duration::from_secs(60), { let (c, l) = ($cfg.clone(), $ledger.clone()); move || drive::<{ Instruments::LogsWithoutMetrics.into() }>(c, l) }),
    2 => tk::run($cfg.rt, Duration::from_secs(60), { let (c, l) = ($cfg.clone(), $ledger.clone()); move || drive::<{ Instruments::LogsWithMetrics.into() }>(c, l) }),
    3 => tk::run($cfg.rt, Duration::from_secs(60), { let (c, l) = ($cfg.clone(), $ledger.clone()); move || drive::<{ Instruments::LogsWithExpensiveMetrics.into() }>(c, l) }),
    4 => tk::run($cfg.rt, Duration::from_secs(60), { let (c, l) = ($cfg.clone(), $ledger.clone()); move || drive::<{ Instruments::MetricsWithoutLogs.into() }>(c, l) }),
    _ => tk::run($cfg.rt, Duration::from_secs(60), { let (c, l) = ($cfg.clone(), $ledger.clone()); move || drive::<{ Instruments::ExpensiveMetricsWithoutLogs.into() }>(c, l) }),
} } }

pub fn run_one(cfg: &Cfg) -> (Option<Observed>, Arc<Ledger>) {
    let ledger = Ledger::new(cfg.script.len());
    let o = with_instr!(cfg.instruments, cfg, ledger);
    (o, ledger)
}

pub fn run(args: &Args, acc: &mut Acc) { if args.get("workload") == Some("wrappers") { run_loop(args, acc, wrappers) } else { run_loop(args, acc, single) } }

/// workload `wrappers`: the concurrency limit as seen through the `Uni` / `Multi` wrappers (the pipelines of C06): a Uni runs MAX_STREAMS executors and
/// a Multi one executor per listener, each with the configured limit, so at no instant may more than limit x executors item futures be in progress
/// (gauge kept by the item futures themselves: first poll .. completion or drop)
fn wrappers(args: &Args, acc: &mut Acc, seed: u64, verbose: bool) {
    use super::c06;
    let mut rng = Rng::new(seed);
    // 1 run in 3: the old-events / new-events executor pair of a log-channel Multi (the pipelines of C12's `sequential` workload, futures executors): the pair
    // shares one configured limit per executor -- with a sequential transition one executor is active at a time, otherwise both are
    if args.only.is_none() && rng.chance(1, 3) {
        let rt = if rng.chance(1, 2) { Rt::CurrentPaused } else { Rt::Multi(2 + rng.below(7) as usize) };
        let (limit, sequential, exec, with_timeout) = (1 + rng.below(4) as u32, rng.chance(1, 2), rng.below(2) as u8, rng.chance(1, 3));
        let olds: Vec<u8> = (0..rng.below(8)).map(|_| 1 + rng.below(5) as u8).collect();
        let news: Vec<u8> = (0..2 + rng.below(7)).map(|_| 1 + rng.below(5) as u8).collect();
        let ledger = Ledger::new(olds.len() + news.len());
        let (o, n, l) = (olds.clone(), news.clone(), ledger.clone());
        let paused = rt == Rt::CurrentPaused;
        let r = tk::run(rt, Duration::from_secs(60), move || super::c12::sequential_case(sequential, limit, exec, with_timeout, o, n, paused, l));
        acc.evaluations += 1;
        acc.count("wrapper_runs[multi, old-events + new-events executor pair]", 1);
        if r.is_none() { acc.inconclusive += 1; acc.count("inconclusive_watchdog", 1); return }
        let executors_at_a_time = if sequential { 1 } else { 2 };
        let max = ledger.max_in_flight.load(SeqCst);
        acc.count("max_in_flight_observed", max.max(0) as u64);
        if max >= 2 { acc.nontrivial(mix(seed & 0xFFFF, (limit as u64) << 8 | 0x40 | executors_at_a_time as u64)) }
        if max > limit as i32 * executors_at_a_time {
            let v = J::obj().with("what", J::s(format!("{max} item futures were in progress at one instant; the concurrency limit is {limit} for each of the two executors (old events, new events) of this Multi, of which {executors_at_a_time} run(s) at a time (sequential transition {})", if sequential { "on" } else { "off" })))
                .with("sigs", J::Arr(vec![J::obj().with("anomaly", J::s("concurrency_limit_exceeded")).with("executor", J::s("wrapper: oldies + newies")).with("with_timeout", J::Bool(with_timeout))]))
                .with("config", J::obj().with("executor", J::s(super::c12::EXEC_NAMES[exec as usize])).with("sequential_transition", J::Bool(sequential)).with("concurrency_limit", J::i(limit as i64)).with("runtime", J::s(rt.describe())).with("old_events_work", J::s(format!("{:?}", olds))).with("new_events_work", J::s(format!("{:?}", news))));
            file_violation(args, acc, seed, verbose, v);
        }
        return
    }
    let mut cfg = c06::draw_cfg(&mut rng, args.only.as_deref());
    // futures executors only (synchronous items are never "in progress" concurrently), and enough events for the gauge to matter
    cfg.exec = if cfg.kind.starts_with("multi") { c06::Exec::FuturesFallible } else { *rng.pick(&[c06::Exec::FuturesFallible, c06::Exec::Futures]) };
    let n = 4 + rng.below(12) as usize;
    cfg.items = (0..n).map(|_| if rng.chance(1, 2) { c06::Item::Yields(1 + rng.below(3) as u8) } else { c06::Item::Sleeps(1 + rng.below(5) as u8) }).collect();
    cfg.second_close = false; cfg.cancel_before_close = false;
    let (snap, ledger) = c06::run_case(&cfg);
    acc.evaluations += 1;
    acc.count(&format!("wrapper_runs[{}]", if cfg.kind.starts_with("multi") { "multi" } else { "uni" }), 1);
    let Some(_s) = snap else { acc.inconclusive += 1; acc.count("inconclusive_watchdog", 1); return };
    let executors = if cfg.kind.starts_with("multi") { cfg.listeners as i32 } else { cfg.m as i32 };
    let max = ledger.max_in_flight.load(SeqCst);
    acc.count("max_in_flight_observed", max.max(0) as u64);
    if max >= 2 { acc.nontrivial(mix(seed & 0xFFFF, (cfg.limit as u64) << 8 | executors as u64)) }
    if cfg.limit == 1 && executors >= 2 { acc.count("wrapper_runs_with_limit_below_the_number_of_executors", 1) }
    if max > cfg.limit as i32 * executors {
        let v = J::obj().with("what", J::s(format!("{max} item futures were in progress at one instant; the concurrency limit is {} for each of the {executors} executor(s) of this {}", cfg.limit, if cfg.kind.starts_with("multi") { "Multi" } else { "Uni" })))
            .with("sigs", J::Arr(vec![J::obj().with("anomaly", J::s("concurrency_limit_exceeded")).with("executor", J::s("wrapper")).with("with_timeout", J::Bool(cfg.with_timeout))])).with("config", cfg.json());
        file_violation(args, acc, seed, verbose, v);
    }
}

fn single(args: &Args, acc: &mut Acc, seed: u64, verbose: bool) {
    let mut rng = Rng::new(seed);
    let cfg = draw_cfg(&mut rng, args.only.as_deref(), args.thorough());
    let (o, ledger) = run_one(&cfg);
    acc.evaluations += 1;
    acc.count(&format!("runs[{:?}{}]", cfg.variant, if cfg.timeout_ms > 0 { ",timeout" } else { "" }), 1);
    acc.count(if cfg.rt == Rt::CurrentPaused { "runs_on_paused_current_thread_runtime" } else { "runs_on_multi_thread_runtime" }, 1);
    let Some(o) = o else { acc.inconclusive += 1; acc.count("inconclusive_watchdog", 1); if acc.notes.len() < 10 { acc.notes.push(format!("watchdog: {}", cfg.json().to_string())) } return };
    acc.count("items", cfg.script.len() as u64);
    if cfg.aged_ms > 0 { acc.count("runs_whose_executor_had_outlived_its_timeout_when_the_first_item_arrived", 1) }
    acc.count("items_cancelled_by_the_timeout(in-flight time checked against the timeout)", ledger.cancelled_after_us.lock().unwrap().len() as u64);
    let problems = evaluate(&cfg, &ledger, &o);
    let interesting = cfg.script.iter().any(|b| !matches!(b, Beh::Ok { .. }));
    if interesting { acc.nontrivial(cfg.script.iter().fold(mix(cfg.limit as u64, cfg.instruments as u64 * 7 + cfg.timeout_ms), |h, b| mix(h, match b { Beh::Ok { y, sleep } => *y as u64 * 16 + *sleep as u64, Beh::Err { y, sleep } => 1000 + *y as u64 * 16 + *sleep as u64, Beh::Slow => 2000, Beh::SlowErr => 3000 })) ^ cfg.variant as u64) }
    acc.count("max_in_flight_observed", ledger.max_in_flight.load(SeqCst).max(0) as u64);
    acc.sample(3, || J::obj().with("config", cfg.json()).with("counters", J::s(format!("ok={} timed_out={} failed={}", o.ok, o.timed_out, o.failed))).with("max_in_flight", J::i(ledger.max_in_flight.load(SeqCst))));
    if !problems.is_empty() {
        let mut sigs: Vec<J> = Vec::new();
        for (a, _) in &problems { let s = J::obj().with("anomaly", J::s(a)).with("executor", J::s(format!("{:?}", cfg.variant))).with("with_timeout", J::Bool(cfg.timeout_ms > 0)); if !sigs.iter().any(|x| x.to_string() == s.to_string()) { sigs.push(s) } }
        let v = J::obj().with("what", J::s(problems.iter().map(|p| p.1.clone()).take(5).collect::<Vec<_>>().join("; "))).with("sigs", J::Arr(sigs)).with("config", cfg.json());
        file_violation(args, acc, seed, verbose, v);
    }
}
