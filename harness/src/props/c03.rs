//! C03 -- Multi: with a fixed listener set, each listener receives every accepted event exactly once, in each producer's
//! send order, and all listeners observe the same payload (Arc / OgreArc kinds: the very same allocation).
//!
//! Listeners are created before anything is sent and are polled by independent threads (polling, so the verdict does not
//! depend on wake-ups). With `Hold::Keep` every handle stays alive to the end of the run, so address equality across
//! listeners cannot be faked by storage reuse, and the reference counts can be compared with the number of live handles.

use crate::chan::{self, Kind};
use crate::common::{draw_strategy, file_violation, run_loop, Acc, Args};
use crate::drive::{entries_for, ids_json, polling_consumer_body, producer_body, ConsLog, Entry, Hold, OnExit, ProdLog};
use crate::json::J;
use crate::sched::{self, mix, Body, Lane, Outcome, Rng, RunCfg};
use reactive_mutiny::verif as rv;
use std::collections::{HashMap, HashSet};
use std::sync::{atomic::{AtomicU32, Ordering::SeqCst}, Arc};

#[derive(Clone, Debug)]
pub struct Cfg { pub kind: Kind, pub n: usize, pub m: usize, pub listeners: usize, pub entries: Vec<Entry>, pub per_prod: u32, pub retries: u32, pub hold: Hold, pub droppy: bool,
    /// 0: the listeners are the first streams ever created; otherwise the seed of a random history of stream creations and drops (any order) that precedes the run and
    /// leaves `listeners` streams alive: the set is fixed from then on, but the ids in use and the state of the stream-id bookkeeping are arbitrary
    pub prehistory: u64 }
impl Cfg {
    pub fn json(&self) -> J {
        J::obj().with("kind", J::s(self.kind.name())).with("N", J::i(self.n as i64)).with("M", J::i(self.m as i64)).with("listeners", J::i(self.listeners as i64))
            .with("producers", J::Arr(self.entries.iter().map(|e| J::s(e.name())).collect())).with("events_per_producer", J::i(self.per_prod as i64))
            .with("retries", J::i(self.retries as i64)).with("hold", J::s(format!("{:?}", self.hold))).with("droppy", J::Bool(self.droppy)).with("listeners_are_the_survivors_of_an_earlier_random_create_drop_history", J::Bool(self.prehistory != 0))
    }
}

pub const PAUSE_SITES: &[u32] = &[
    rv::MULTI_FANOUT_BEFORE_COUNT, rv::MULTI_FANOUT_AFTER_INCREMENT, rv::MULTI_FANOUT_BEFORE_ENTRY, rv::MULTI_FANOUT_BEFORE_PUBLISH, rv::MULTI_FANOUT_BEFORE_WAKE,
    rv::MULTI_XB_BETWEEN_LEN_AND_SEND, rv::AM_LEAK_AFTER_RESERVE, rv::AM_PUBLISH_BEFORE, rv::AM_CONSUME_AFTER_RESERVE, rv::AM_CONSUME_AFTER_READ, rv::FS_LEAK_LOCKED,
    rv::FS_PUBLISH_BEFORE, rv::FS_CONSUME_LOCKED, rv::ALLOC_AFTER_DEQUEUE, rv::ARC_DROP_BEFORE, rv::ARC_DROP_AFTER_DEC, rv::ARC_INCREMENT_BEFORE,
    rv::MMAP_PUBLISH_AFTER_RESERVE, rv::MMAP_PUBLISH_AFTER_SETTER, rv::MMAP_CONSUME_AFTER_RESERVE,
];

pub fn draw_cfg(rng: &mut Rng, only: Option<&str>, lane: Lane) -> Cfg {
    let kinds: Vec<Kind> = chan::MULTI_KINDS.iter().copied().filter(|k| only.map(|o| k.name() == o).unwrap_or(true)).filter(|k| !(cfg!(miri) && *k == Kind::MultiMmap)).collect();   // (Miri cannot interpret file-backed mmap)
    let kind = *rng.pick(&kinds);
    let droppy = kind != Kind::MultiMmap && rng.chance(1, 5);
    let (n, m) = *rng.pick(&chan::cfgs_for(kind, droppy));
    let listeners = 1 + rng.below(m.min(4) as u64) as usize;
    let mut nprod = 1 + rng.below(3) as usize;
    let mut per_prod = 1 + rng.below(4) as u32;
    let mut hold = if rng.chance(2, 3) { Hold::Keep } else { Hold::Release };
    if kind.never_rejects() && kind != Kind::MultiMmap {
        // the Arc kinds wait (by documented design) when a listener's buffer is full -- the property is stated for event sequences shorter than the buffer
        while per_prod as usize * nprod > n { if per_prod > 1 { per_prod -= 1 } else { nprod -= 1 } }
    } else if lane == Lane::Free {
        per_prod = 100 + rng.below(2000) as u32;
        if kind != Kind::MultiMmap { hold = Hold::Release }
    }
    let es = entries_for(kind);
    let entries: Vec<Entry> = (0..nprod).map(|_| *rng.pick(&es)).collect();
    let retries = if lane == Lane::Free { 1_000_000 } else { rng.below(4) as u32 };
    let prehistory = if rng.chance(1, 3) { rng.next() | 1 } else { 0 };
    Cfg { kind, n, m, listeners, entries, per_prod, retries, hold, droppy, prehistory }
}

pub fn one_run(cfg: &Cfg, rc: &RunCfg, acc: &mut Acc) -> (Option<J>, u64, bool) {
    let ch = chan::make(cfg.kind, cfg.n, cfg.m, cfg.droppy).expect("channel instantiation");
    let shift = if cfg.per_prod < 250 { 8 } else { 14 };
    if cfg.droppy { crate::payload::tracker().reset((cfg.entries.len() + 2) << shift) }
    let mut strms: Vec<_> = Vec::new();
    if cfg.prehistory != 0 {
        let mut r = Rng::new(cfg.prehistory);
        for _ in 0..r.below(3 * cfg.m as u64 + 1) { if strms.len() < cfg.m && r.chance(3, 5) { strms.push(ch.create_stream()) } else if !strms.is_empty() { let i = r.below(strms.len() as u64) as usize; drop(strms.remove(i)) } }
        while strms.len() > cfg.listeners { let i = r.below(strms.len() as u64) as usize; drop(strms.remove(i)) }
        acc.count("runs_whose_listeners_survive_an_earlier_create_drop_history", 1);
    }
    while strms.len() < cfg.listeners { strms.push(ch.create_stream()) }
    if rc.lane == Lane::Free { for s in strms.iter_mut() { crate::drive::preregister_noop(s) } }
    let clogs: Vec<Arc<ConsLog>> = (0..cfg.listeners).map(|_| Arc::new(ConsLog::default())).collect();
    let plogs: Vec<Arc<ProdLog>> = cfg.entries.iter().map(|_| Arc::new(ProdLog::default())).collect();
    let done = Arc::new(AtomicU32::new(0));
    let nprod = cfg.entries.len() as u32;
    let mut bodies: Vec<Body> = Vec::new();
    for (s, l) in strms.into_iter().zip(clogs.iter()) {
        let d = done.clone();
        bodies.push(polling_consumer_body(s, cfg.hold, l.clone(), Arc::new(move || d.load(SeqCst) == nprod)));
    }
    let mut sent: HashSet<u64> = HashSet::new();
    for (p, (e, l)) in cfg.entries.iter().zip(plogs.iter()).enumerate() {
        let ids: Vec<u64> = (0..cfg.per_prod as u64).map(|i| ((p as u64 + 1) << shift) | (i + 1)).collect();
        sent.extend(ids.iter());
        let inner = producer_body(ch.clone(), *e, ids, cfg.retries, l.clone());
        let d = done.clone();
        bodies.push(Box::new(move || { let _g = OnExit(Some(move || { d.fetch_add(1, SeqCst); })); inner() }));
    }
    let rep = sched::run(rc, bodies);
    acc.account(&rep);
    if rep.inconclusive() {
        if acc.notes.len() < 20 { acc.notes.push(format!("inconclusive {:?}: {} {}", rep.outcome, cfg.json().to_string(), rc.strategy.describe())) }
        std::mem::forget(ch);
        return (None, rep.sched_hash, true);
    }
    let mut problems: Vec<(String, String)> = ch.take_problems().into_iter().map(|p| ("rejected_input_changed".to_string(), p)).collect();
    for (t, p) in &rep.panics { problems.push(("panic".into(), format!("thread t{t} panicked: {p}"))) }
    if let Outcome::Stall { .. } = rep.outcome { problems.push(("stall".into(), format!("run stalled: {}", rep.outcome_json().to_string()))) }
    let mut accepted: Vec<u64> = Vec::new();
    for l in &plogs { accepted.extend(l.accepted.lock().unwrap().iter()) }
    let acc_set: HashSet<u64> = accepted.iter().copied().collect();
    let complete = rep.outcome == Outcome::Done;
    let mut addr_of: HashMap<u64, usize> = HashMap::new();
    let mut total_yields = 0u64;
    for (li, l) in clogs.iter().enumerate() {
        let ys = l.yields.lock().unwrap();
        let mut seen: HashSet<u64> = HashSet::new();
        let mut last: HashMap<u64, u64> = HashMap::new();
        for (id, valid, addr, _) in ys.iter() {
            total_yields += 1;
            if !*valid { problems.push(("corrupt".into(), format!("listener {li} yielded a corrupted payload (id field {id:#x})"))) }
            if !seen.insert(*id) { problems.push(("duplicate".into(), format!("listener {li} yielded event {id} more than once"))) }
            if !acc_set.contains(id) { problems.push((if sent.contains(id) { "unaccepted_delivered" } else { "never_sent" }.into(), format!("listener {li} yielded {id}, which no send reported as accepted"))) }
            let (p, k) = (id >> shift, id & ((1 << shift) - 1));
            if let Some(prev) = last.get(&p) { if *prev >= k { problems.push(("order".into(), format!("listener {li} yielded event #{k} of producer {p} after its event #{prev}"))) } }
            last.insert(p, k);
            if cfg.hold == Hold::Keep {
                match addr_of.get(id) { None => { addr_of.insert(*id, *addr); } Some(a) => if *a != *addr { problems.push(("different_allocation".into(), format!("listeners hold event {id} at different addresses ({a:#x} vs {addr:#x}) while all handles are alive"))) } }
            }
        }
        if complete {
            let missing: Vec<u64> = accepted.iter().copied().filter(|a| !seen.contains(a)).collect();
            if !missing.is_empty() { problems.push(("missed".into(), format!("listener {li} (polled until empty after the last send returned) never yielded {} accepted event(s): {:?}", missing.len(), &missing[..missing.len().min(8)]))) }
        }
    }
    // reference counts at quiescence = number of live handles (every listener still holds its handle)
    if cfg.hold == Hold::Keep && complete && problems.is_empty() {
        for l in clogs.iter() {
            for it in l.held.lock().unwrap().iter() {
                if let Some(r) = it.refs() {
                    if r as usize != cfg.listeners { problems.push(("refcount".into(), format!("event {}: reference count {} with {} live handles", it.id, r, cfg.listeners))); break }
                }
                let (id2, v2) = it.reread();
                if id2 != it.id || !v2 { problems.push(("changed_under_handle".into(), format!("event {} reads back as id {} (valid={}) through a live handle", it.id, id2, v2))); break }
            }
        }
        acc.count("refcounts_compared", accepted.len() as u64 * cfg.listeners as u64);
    }
    if cfg.droppy { for l in clogs.iter() { l.held.lock().unwrap().clear() } for p in crate::payload::tracker().take_problems() { problems.push(("drop".into(), p)) } }
    acc.count("events_accepted", accepted.len() as u64);
    acc.count("yields", total_yields);
    let violation = if problems.is_empty() { None } else {
        let mut sigs: Vec<J> = Vec::new();
        for (a, _) in &problems { let s = J::obj().with("anomaly", J::s(a)).with("kind", J::s(cfg.kind.name())); if !sigs.iter().any(|x| x.to_string() == s.to_string()) { sigs.push(s) } }
        Some(J::obj().with("what", J::s(problems.iter().map(|p| p.1.clone()).take(6).collect::<Vec<_>>().join("; "))).with("sigs", J::Arr(sigs))
            .with("config", cfg.json()).with("strategy", J::s(rc.strategy.describe())).with("outcome", rep.outcome_json())
            .with("accepted", ids_json(&accepted[..accepted.len().min(64)]))
            .with("yielded", J::Arr(clogs.iter().map(|l| { let mut v = l.ids(); v.truncate(64); ids_json(&v) }).collect())))
    };
    for l in clogs.iter() { l.held.lock().unwrap().clear() }     // handles never outlive their channel
    (violation, rep.sched_hash, false)
}

pub fn run(args: &Args, acc: &mut Acc) { run_loop(args, acc, single) }

fn single(args: &Args, acc: &mut Acc, seed: u64, verbose: bool) {
    let mut rng = Rng::new(seed);
    let cfg = draw_cfg(&mut rng, args.only.as_deref(), args.lane);
    let nthreads = cfg.listeners + cfg.entries.len();
    let mut rc = match args.lane {
        Lane::Ser => RunCfg::ser(seed, draw_strategy(&mut rng, nthreads, PAUSE_SITES, 300)),
        Lane::Free => RunCfg::free(seed, rng.below(3) as u8),
    };
    rc.trace = verbose && args.get("trace").is_some();
    let (violation, hash, inconclusive) = one_run(&cfg, &rc, acc);
    acc.count(&format!("runs[{}]", cfg.kind.name()), 1);
    if inconclusive { return }
    if cfg.listeners >= 2 { acc.count("runs_with_2+_listeners", 1) }
    acc.nontrivial(mix(hash, cfg.kind as u64 * 131 + cfg.n as u64 * 17 + cfg.m as u64 + ((cfg.per_prod as u64) << 20) + ((cfg.listeners as u64) << 40)));
    acc.sample(3, || J::obj().with("config", cfg.json()).with("strategy", J::s(rc.strategy.describe())));
    if let Some(v) = violation { file_violation(args, acc, seed, verbose, v) }
}
