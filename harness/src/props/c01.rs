//! C01 -- Uni: every accepted event is delivered exactly once, rejected ones never.
//!
//! Producers send through random entry points (a rejected send is retried a bounded number of times and then given up,
//! so both outcomes occur); consumers *poll in a loop* (the verdict must not depend on wake-ups -- that is C04) until
//! every producer has returned and they found the channel empty twice. Oracle: conservation over unique ids.

use crate::chan::{self, Kind};
use crate::common::{draw_strategy, file_violation, run_loop, Acc, Args};
use crate::drive::{entries_for, ids_json, polling_consumer_body, producer_body, ConsLog, Entry, Hold, ProdLog};
use crate::json::J;
use crate::sched::{self, mix, Body, Lane, Outcome, Rng, RunCfg};
use reactive_mutiny::verif as rv;
use std::collections::HashMap;
use std::sync::{atomic::{AtomicU32, Ordering::SeqCst}, Arc};

#[derive(Clone, Debug)]
pub struct Cfg {
    pub kind: Kind, pub n: usize, pub m: usize, pub streams: usize, pub entries: Vec<Entry>, pub per_prod: u32, pub retries: u32, pub hold: Hold, pub droppy: bool,
    /// FREE lane: per stream, (after the k-th yield, ms away)
    pub stalls: Vec<Vec<(u32, u32)>>,
}
impl Cfg {
    pub fn json(&self) -> J {
        J::obj().with("kind", J::s(self.kind.name())).with("N", J::i(self.n as i64)).with("M", J::i(self.m as i64)).with("streams", J::i(self.streams as i64))
            .with("producers", J::Arr(self.entries.iter().map(|e| J::s(e.name())).collect())).with("events_per_producer", J::i(self.per_prod as i64))
            .with("retries", J::i(self.retries as i64)).with("hold", J::s(format!("{:?}", self.hold))).with("droppy", J::Bool(self.droppy))
            .with("consumer_stalls_ms", J::Arr(self.stalls.iter().map(|v| J::Arr(v.iter().map(|(k, ms)| J::s(format!("after yield {k}: {ms} ms"))).collect())).collect()))
    }
}

pub const PAUSE_SITES: &[u32] = &[
    rv::AM_LEAK_AFTER_RESERVE, rv::AM_LEAK_FULL_BEFORE_RECEDE, rv::AM_PUBLISH_BEFORE, rv::AM_PUBLISH_INDEX_BEFORE, rv::AM_CONSUME_AFTER_RESERVE,
    rv::AM_CONSUME_EMPTY_BEFORE_RECEDE, rv::AM_CONSUME_AFTER_READ, rv::FS_LEAK_LOCKED, rv::FS_PUBLISH_BEFORE, rv::FS_CONSUME_LOCKED, rv::FS_CONSUME_AFTER_READ,
    rv::ALLOC_AFTER_DEQUEUE, rv::DEALLOC_AFTER_DROP, rv::UNIQUE_DROP_BEFORE, rv::UNI_XB_BETWEEN_LEN_AND_SEND, rv::UNI_XB_AFTER_FULL_TEST, rv::SYNC_UNLOCK,
];

pub fn draw_cfg(rng: &mut Rng, only: Option<&str>, lane: Lane) -> Cfg {
    let kinds: Vec<Kind> = chan::UNI_KINDS.iter().copied().filter(|k| only.map(|o| k.name() == o).unwrap_or(true)).collect();
    let kind = *rng.pick(&kinds);
    let droppy = rng.chance(1, 5);
    let cfgs = chan::cfgs_for(kind, droppy);
    let (n, m) = *rng.pick(&cfgs);
    let streams = 1 + rng.below(m as u64) as usize;
    let nprod = 1 + rng.below(4) as usize;
    let per_prod = if lane == Lane::Ser { 2 + rng.below(5) as u32 } else { 200 + rng.below(3000) as u32 };
    let mut es = entries_for(kind);
    if kind == Kind::UniMoveCrossbeam && lane == Lane::Ser && per_prod as usize * nprod > n {
        // the setter-based sends of the crossbeam channel wait, by documented design, once their initial fullness test has passed
        // (inside keen-retry, where no hook site exists): under the serialized scheduler only `send` is driven beyond the capacity
        es = vec![Entry::Send];
    }
    let entries: Vec<Entry> = (0..nprod).map(|_| *rng.pick(&es)).collect();
    let hold = if lane == Lane::Ser && rng.chance(1, 4) { Hold::Keep } else { Hold::Release };
    // a consumer that is away for 12-40 ms once or twice (free-running lane, 1 run in 6): the buffer stays full for a while, so producers meet
    // sustained back-pressure (rejections; on the crossbeam channel the setter-based sends wait past their fullness test)
    let mut stalls: Vec<Vec<(u32, u32)>> = vec![Vec::new(); streams];
    if lane == Lane::Free && rng.chance(1, 6) {
        for st in stalls.iter_mut() { for _ in 0..1 + rng.below(2) { st.push((1 + rng.below((per_prod as u64 * nprod as u64 / streams as u64).max(2)) as u32, 12 + rng.below(29) as u32)) } }
    }
    Cfg { kind, n, m, streams, entries, per_prod, retries: rng.below(4) as u32, hold, droppy, stalls }
}

pub fn one_run(cfg: &Cfg, rc: &RunCfg, acc: &mut Acc) -> (Option<J>, u64, bool, bool) {
    let ch = chan::make(cfg.kind, cfg.n, cfg.m, cfg.droppy).expect("channel instantiation");
    let shift = if rc.lane == Lane::Ser { 8 } else { 14 };
    if cfg.droppy { crate::payload::tracker().reset((cfg.entries.len() + 2) << shift) }
    let mut strms: Vec<_> = (0..cfg.streams).map(|_| ch.create_stream()).collect();
    if rc.lane == Lane::Free { for s in strms.iter_mut() { crate::drive::preregister_noop(s) } }
    let clogs: Vec<Arc<ConsLog>> = (0..cfg.streams).map(|_| Arc::new(ConsLog::default())).collect();
    for (l, st) in clogs.iter().zip(cfg.stalls.iter()) { *l.stalls.lock().unwrap() = st.clone() }
    if cfg.stalls.iter().any(|s| !s.is_empty()) { acc.count("runs_with_a_consumer_staying_away_12_to_40_ms", 1) }
    let plogs: Vec<Arc<ProdLog>> = cfg.entries.iter().map(|_| Arc::new(ProdLog::default())).collect();
    // 1 run in 4 (decided by the run's seed): every fourth send of each producer is issued from a destructor while its thread unwinds from a panic ("goodbye" events)
    if !cfg!(miri) && rc.seed % 4 == 1 { for l in &plogs { l.some_sends_while_unwinding.store(true, std::sync::atomic::Ordering::SeqCst) } acc.count("runs_in_which_some_sends_are_issued_while_the_thread_unwinds_from_a_panic", 1) }
    let done = Arc::new(AtomicU32::new(0));
    let nprod = cfg.entries.len() as u32;
    let mut bodies: Vec<Body> = Vec::new();
    for (s, l) in strms.into_iter().zip(clogs.iter()) {
        let d = done.clone();
        bodies.push(polling_consumer_body(s, cfg.hold, l.clone(), Arc::new(move || d.load(SeqCst) == nprod)));
    }
    let mut sent_ids: Vec<Vec<u64>> = Vec::new();
    for (p, (e, l)) in cfg.entries.iter().zip(plogs.iter()).enumerate() {
        let ids: Vec<u64> = (0..cfg.per_prod as u64).map(|i| ((p as u64 + 1) << shift) | (i + 1)).collect();
        sent_ids.push(ids.clone());
        let inner = producer_body(ch.clone(), *e, ids, cfg.retries, l.clone());
        let d = done.clone();
        bodies.push(Box::new(move || { let _g = crate::drive::OnExit(Some(move || { d.fetch_add(1, SeqCst); })); inner(); }));
    }
    let rep = sched::run(rc, bodies);
    acc.account(&rep);
    if rep.inconclusive() {
        if acc.notes.len() < 20 { acc.notes.push(format!("inconclusive {:?}: {} {}", rep.outcome, cfg.json().to_string(), rc.strategy.describe())) }
        std::mem::forget(ch);
        return (None, rep.sched_hash, true, false);
    }
    let mut problems: Vec<(String, String)> = ch.take_problems().into_iter().map(|p| ("rejected_input_changed".to_string(), p)).collect();
    for (t, p) in &rep.panics { problems.push(("panic".into(), format!("thread t{t} panicked: {p}"))) }
    if let Outcome::Stall { .. } = rep.outcome { problems.push(("stall".into(), format!("run stalled: {}", rep.outcome_json().to_string()))) }
    let mut accepted: HashMap<u64, u32> = HashMap::new();
    let mut rejected: Vec<u64> = Vec::new();
    for l in &plogs {
        for a in l.accepted.lock().unwrap().iter() { *accepted.entry(*a).or_insert(0) += 1 }
        rejected.extend(l.rejected.lock().unwrap().iter());
    }
    let any_rejection = plogs.iter().any(|l| l.calls.lock().unwrap().iter().any(|c| !c.3));
    let mut yielded: HashMap<u64, u32> = HashMap::new();
    for l in &clogs {
        for (id, valid, _addr, _st) in l.yields.lock().unwrap().iter() {
            if !*valid { problems.push(("corrupt".into(), format!("a stream yielded a corrupted payload (id field {id:#x})"))) }
            *yielded.entry(*id).or_insert(0) += 1;
        }
    }
    let complete = matches!(rep.outcome, Outcome::Done);
    for (id, n) in &yielded {
        if *n > 1 { problems.push(("duplicate".into(), format!("event {id} was yielded {n} times"))) }
        if !accepted.contains_key(id) {
            if rejected.contains(id) { problems.push(("rejected_delivered".into(), format!("event {id}, whose send was rejected, was delivered"))) }
            else if !sent_ids.iter().any(|v| v.contains(id)) { problems.push(("never_sent".into(), format!("a stream yielded {id}, which nobody sent"))) }
            else { problems.push(("unaccepted_delivered".into(), format!("event {id} was delivered although no send of it reported success"))) }
        }
    }
    if complete {
        let missing: Vec<u64> = accepted.keys().copied().filter(|a| !yielded.contains_key(a)).collect();
        if !missing.is_empty() {
            problems.push(("lost".into(), format!("{} accepted event(s) never yielded although every stream was polled until empty after the last send returned: {:?} (pending_items_count now {})",
                missing.len(), &missing[..missing.len().min(8)], ch.pending())));
        }
    }
    if cfg.droppy { for p in crate::payload::tracker().take_problems() { problems.push(("drop".into(), p)) } }
    let violation = if problems.is_empty() { None } else {
        let mut sigs: Vec<J> = Vec::new();
        for (a, _) in &problems { let s = J::obj().with("anomaly", J::s(a)).with("kind", J::s(cfg.kind.name())); if !sigs.iter().any(|x| x.to_string() == s.to_string()) { sigs.push(s) } }
        Some(J::obj()
            .with("what", J::s(problems.iter().map(|p| p.1.clone()).take(6).collect::<Vec<_>>().join("; ")))
            .with("sigs", J::Arr(sigs)).with("config", cfg.json()).with("strategy", J::s(rc.strategy.describe())).with("outcome", rep.outcome_json())
            .with("accepted", ids_json(&{ let mut v: Vec<u64> = accepted.keys().copied().collect(); v.sort(); v.truncate(64); v }))
            .with("yielded", J::Arr(clogs.iter().map(|l| { let mut v = l.ids(); v.truncate(64); ids_json(&v) }).collect())))
    };
    acc.count("events_accepted", accepted.len() as u64);
    acc.count("events_yielded", yielded.values().map(|v| *v as u64).sum());
    acc.count("sends_rejected", plogs.iter().map(|l| l.calls.lock().unwrap().iter().filter(|c| !c.3).count() as u64).sum());
    if any_rejection { acc.count("runs_with_a_rejection", 1) }
    drop(clogs);
    (violation, rep.sched_hash, false, any_rejection)
}

pub fn run(args: &Args, acc: &mut Acc) { run_loop(args, acc, single) }

fn single(args: &Args, acc: &mut Acc, seed: u64, verbose: bool) {
    let mut rng = Rng::new(seed);
    let cfg = draw_cfg(&mut rng, args.only.as_deref(), args.lane);
    let nthreads = cfg.streams + cfg.entries.len();
    let mut rc = match args.lane {
        Lane::Ser => RunCfg::ser(seed, draw_strategy(&mut rng, nthreads, PAUSE_SITES, 300)),
        Lane::Free => RunCfg::free(seed, rng.below(3) as u8),
    };
    rc.trace = verbose && args.get("trace").is_some();
    let (violation, hash, inconclusive, rejected) = one_run(&cfg, &rc, acc);
    acc.count(&format!("runs[{}]", cfg.kind.name()), 1);
    if inconclusive { return }
    // non-trivial: more than one thread really interleaved (any SER run with >= 2 threads has context switches) -- counted per (schedule, configuration)
    acc.nontrivial(mix(hash, cfg.kind as u64 * 131 + cfg.n as u64 * 17 + cfg.m as u64 + ((cfg.per_prod as u64) << 20)));
    acc.sample(3, || J::obj().with("config", cfg.json()).with("strategy", J::s(rc.strategy.describe())).with("had_rejection", J::Bool(rejected)));
    if let Some(v) = violation { file_violation(args, acc, seed, verbose, v) }
}
