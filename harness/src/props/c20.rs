//! C20 -- a suspended async send never blocks other producers or the consumers.
//!
//! "For however long" restated for a finite run: the setter future of one or two `send_with_async` calls is kept Pending by the
//! harness (a gate) until every other thread has finished its script and every consumer has received everything the others
//! got accepted; "completes in a bounded number of its own steps" is the conductor's stall verdict (every runnable thread
//! spins in a retry loop while the only threads that could release them are suspended in the harness). SER only.

use crate::chan::{self, Gate, Kind, SendRes};
use crate::common::{draw_strategy, file_violation, run_loop, Acc, Args};
use crate::drive::{entries_for, producer_body, send_via, stamp, Entry, OnExit, ProdLog};
use crate::json::J;
use crate::sched::{self, mix, Body, Outcome, Rng, RunCfg};
use reactive_mutiny::verif as rv;
use std::sync::{atomic::{AtomicBool, AtomicU32, Ordering::SeqCst}, Arc, Mutex};
use std::task::Poll;

#[derive(Clone, Copy, Debug, PartialEq, Eq)]
pub enum SameThreadOp { Send, SendWith, Reserve, Len, Poll }

#[derive(Clone, Debug)]
pub struct Cfg { pub kind: Kind, pub n: usize, pub m: usize, pub streams: usize, pub suspended: usize, pub same_thread: Vec<SameThreadOp>, pub others: Vec<Entry>, pub per_other: u32, pub len_thread: bool, pub prefill: u32,
    /// the length-query thread also issues `flush(unbounded)` once a send is suspended: what was accepted meanwhile gets consumed, so the flush has to return
    pub flush: bool }
impl Cfg {
    pub fn json(&self) -> J {
        J::obj().with("kind", J::s(self.kind.name())).with("N", J::i(self.n as i64)).with("M", J::i(self.m as i64)).with("streams", J::i(self.streams as i64))
            .with("suspended_async_sends", J::i(self.suspended as i64)).with("same_thread_ops_while_suspended", J::s(format!("{:?}", self.same_thread)))
            .with("other_producers", J::Arr(self.others.iter().map(|e| J::s(e.name())).collect())).with("events_per_other_producer", J::i(self.per_other as i64))
            .with("length_query_thread", J::Bool(self.len_thread)).with("flush_issued_while_a_send_is_suspended", J::Bool(self.len_thread && self.flush)).with("prefill", J::i(self.prefill as i64))
    }
}

pub const PAUSE_SITES: &[u32] = &[rv::AM_LEAK_AFTER_RESERVE, rv::AM_PUBLISH_BEFORE, rv::FS_LEAK_LOCKED, rv::FS_PUBLISH_BEFORE, rv::ALLOC_AFTER_DEQUEUE, rv::AM_CONSUME_AFTER_RESERVE,
    rv::MULTI_FANOUT_BEFORE_PUBLISH, rv::UNI_XB_AFTER_FULL_TEST, rv::SYNC_LOCK_ENTER];

pub fn draw_cfg(rng: &mut Rng, only: Option<&str>) -> Cfg {
    let kinds: Vec<Kind> = chan::ALL_KINDS.iter().copied().filter(|k| k.has_async_send() && only.map(|o| k.name() == o).unwrap_or(true)).collect();
    let mut kind = *rng.pick(&kinds);
    // the two kinds with a listed known finding stall in most of their runs (expensive): visit them less often, the other kinds are the canary
    if kinds.len() > 2 && matches!(kind, Kind::UniMoveAtomic | Kind::UniMoveFullSync) && !rng.chance(1, 4) { kind = *rng.pick(&kinds) }
    let cfgs: Vec<(usize, usize)> = chan::cfgs_for(kind, false).into_iter().filter(|c| c.0 >= 4 && c.0 <= 16 && c.1 <= 2).collect();
    let (n, m) = *rng.pick(&cfgs);
    let streams = 1 + rng.below(m as u64) as usize;
    let suspended = 1 + rng.below(2) as usize;
    let mut nothers = rng.below(3) as usize;
    let mut per_other = 1 + rng.below(3) as u32;
    let mut same_thread: Vec<SameThreadOp> = Vec::new();
    if rng.chance(1, 2) {
        let pool: Vec<SameThreadOp> = if kind.has_reserve() { vec![SameThreadOp::Send, SameThreadOp::SendWith, SameThreadOp::Reserve, SameThreadOp::Len] } else { vec![SameThreadOp::Send, SameThreadOp::SendWith, SameThreadOp::Len] };
        for _ in 0..1 + rng.below(2) { same_thread.push(*rng.pick(&pool)) }
    }
    if nothers == 0 && same_thread.is_empty() { nothers = 1 }
    let mut prefill = rng.below(3) as u32;
    // stay within the buffer: the Arc kinds wait by design when a listener's buffer is full, the others would merely answer "full"
    while (prefill + per_other * nothers as u32 + (suspended + same_thread.len()) as u32) as usize > n { if prefill > 0 { prefill -= 1 } else if per_other > 1 { per_other -= 1 } else if nothers > 1 { nothers -= 1 } else { break } }
    let mut es = entries_for(kind); es.retain(|e| !matches!(e, Entry::SendAsyncSuspended | Entry::Derived));
    let others: Vec<Entry> = (0..nothers).map(|_| *rng.pick(&es)).collect();
    Cfg { kind, n, m, streams, suspended, same_thread, others, per_other, len_thread: rng.chance(1, 3), prefill, flush: rng.chance(1, 2) }
}

struct Shared {
    others_done: AtomicU32, n_others: u32,
    all_done: AtomicU32, n_producers: u32,
    accepted_by_others: AtomicU32,
    accepted_total: AtomicU32,
    /// per listener (Multi) or one shared counter (Uni)
    yielded: Vec<AtomicU32>,
    yielded_ids: Mutex<Vec<(usize, u64)>>,
    accepted_ids: Mutex<Vec<u64>>,
    suspended_reached: AtomicU32,
    gate_opened: AtomicBool,
    delivered_before_gate: AtomicU32,
    problems: Mutex<Vec<String>>,
    flushes: AtomicU32,
}

pub fn one_run(cfg: &Cfg, rc: &RunCfg, acc: &mut Acc) -> (Option<J>, u64, bool, bool) {
    let ch = chan::make(cfg.kind, cfg.n, cfg.m, false).expect("instantiation");
    let strms: Vec<_> = (0..cfg.streams).map(|_| ch.create_stream()).collect();
    let multi = cfg.kind.is_multi();
    let sh = Arc::new(Shared {
        others_done: AtomicU32::new(0), n_others: cfg.others.len() as u32 + cfg.len_thread as u32, all_done: AtomicU32::new(0), n_producers: (cfg.others.len() + cfg.suspended) as u32 + cfg.len_thread as u32,
        accepted_by_others: AtomicU32::new(0), accepted_total: AtomicU32::new(0), yielded: (0..if multi { cfg.streams } else { 1 }).map(|_| AtomicU32::new(0)).collect(),
        yielded_ids: Mutex::new(Vec::new()), accepted_ids: Mutex::new(Vec::new()), suspended_reached: AtomicU32::new(0), gate_opened: AtomicBool::new(false), delivered_before_gate: AtomicU32::new(0), problems: Mutex::new(Vec::new()), flushes: AtomicU32::new(0),
    });
    let mut next_id = 1u64;
    for _ in 0..cfg.prefill { if send_via(&*ch, Entry::Send, next_id) == SendRes::Ok { sh.accepted_by_others.fetch_add(1, SeqCst); sh.accepted_total.fetch_add(1, SeqCst); sh.accepted_ids.lock().unwrap().push(next_id) } next_id += 1 }
    let mut bodies: Vec<Body> = Vec::new();
    // consumers
    for (si, mut s) in strms.into_iter().enumerate() {
        let sh = sh.clone();
        let yi = if multi { si } else { 0 };
        bodies.push(Box::new(move || {
            let w = chan::noop_waker();
            let mut phase = 1;
            let mut empties_after_all = 0;
            loop {
                match s.poll(&w) {
                    Poll::Ready(Some(it)) => {
                        if !it.valid { sh.problems.lock().unwrap().push(format!("corrupted payload (id field {:#x})", it.id)) }
                        sh.yielded_ids.lock().unwrap().push((si, it.id));
                        sh.yielded[yi].fetch_add(1, SeqCst);
                        if !sh.gate_opened.load(SeqCst) { sh.delivered_before_gate.fetch_add(1, SeqCst); }
                        drop(it);
                        sched::op_done();
                    }
                    Poll::Ready(None) => { sh.problems.lock().unwrap().push("a stream ended by itself".into()); break }
                    Poll::Pending => {
                        if phase == 1 && sh.others_done.load(SeqCst) == sh.n_others && sh.suspended_reached.load(SeqCst) > 0 && sh.yielded[yi].load(SeqCst) >= sh.accepted_by_others.load(SeqCst) {
                            // everything the others got accepted while the async send is suspended has been delivered: wait for the gate
                            phase = 2;
                            sched::gate_wait();
                            continue;
                        }
                        if sh.all_done.load(SeqCst) == sh.n_producers {
                            if sh.yielded[yi].load(SeqCst) >= sh.accepted_total.load(SeqCst) { break }
                            empties_after_all += 1;
                            if empties_after_all > 3 { break }
                        }
                        sched::spin();
                    }
                }
            }
            drop(s);
        }));
    }
    // the suspended async sends
    for a in 0..cfg.suspended {
        let (ch, sh) = (ch.clone(), sh.clone());
        let id = 0x1000 + a as u64;
        let same: Vec<SameThreadOp> = if a == 0 { cfg.same_thread.clone() } else { Vec::new() };
        bodies.push(Box::new(move || {
            let sh2 = sh.clone();
            let _g = OnExit(Some(move || { sh2.all_done.fetch_add(1, SeqCst); }));
            let gate = Gate::new(false);
            let mut f = ch.send_with_async(id, gate.clone());
            let w = chan::noop_waker();
            let r = match f.poll_once(&w) {
                Poll::Ready(r) => { sh.suspended_reached.fetch_add(1, SeqCst); r }
                Poll::Pending => {
                    sh.suspended_reached.fetch_add(1, SeqCst);
                    sched::op_done();
                    // operations of the same thread while its own async send is suspended
                    let mut extra = 0x2000 + 0x100 * a as u64;
                    for op in same {
                        extra += 1;
                        let accepted = match op {
                            SameThreadOp::Send => send_via(&*ch, Entry::Send, extra) == SendRes::Ok,
                            SameThreadOp::SendWith => send_via(&*ch, Entry::SendWith, extra) == SendRes::Ok,
                            SameThreadOp::Reserve => send_via(&*ch, Entry::Reserve, extra) == SendRes::Ok,
                            SameThreadOp::Len => { let _ = ch.pending(); false }
                            SameThreadOp::Poll => false,
                        };
                        if accepted { sh.accepted_ids.lock().unwrap().push(extra); sh.accepted_by_others.fetch_add(1, SeqCst); sh.accepted_total.fetch_add(1, SeqCst); }
                        sched::op_done();
                    }
                    sched::gate_wait();
                    sh.gate_opened.store(true, SeqCst);
                    gate.open();
                    loop { match f.poll_once(&w) { Poll::Ready(r) => break r, Poll::Pending => sched::spin() } }
                }
            };
            if r == SendRes::Ok { sh.accepted_ids.lock().unwrap().push(id); sh.accepted_total.fetch_add(1, SeqCst); }
            let _ = stamp();
        }));
    }
    // the other producers
    let plogs: Vec<Arc<ProdLog>> = cfg.others.iter().map(|_| Arc::new(ProdLog::default())).collect();
    for (p, (e, l)) in cfg.others.iter().zip(plogs.iter()).enumerate() {
        let ids: Vec<u64> = (0..cfg.per_other as u64).map(|i| ((p as u64 + 1) << 8) | (i + 1)).collect();
        let inner = producer_body(ch.clone(), *e, ids, 2, l.clone());
        let (sh, l2) = (sh.clone(), l.clone());
        bodies.push(Box::new(move || {
            let _g = OnExit(Some(move || {
                let a = l2.accepted.lock().unwrap().clone();
                sh.accepted_by_others.fetch_add(a.len() as u32, SeqCst); sh.accepted_total.fetch_add(a.len() as u32, SeqCst); sh.accepted_ids.lock().unwrap().extend(a);
                sh.others_done.fetch_add(1, SeqCst); sh.all_done.fetch_add(1, SeqCst);
            }));
            inner()
        }));
    }
    if cfg.len_thread {
        let (ch, sh) = (ch.clone(), sh.clone());
        let do_flush = cfg.flush;
        bodies.push(Box::new(move || {
            let sh2 = sh.clone();
            let _g = OnExit(Some(move || { sh2.others_done.fetch_add(1, SeqCst); sh2.all_done.fetch_add(1, SeqCst); }));
            for _ in 0..3 { let l = ch.pending(); if l as usize > ch.info().n.max(1) * 2 && ch.info().n > 0 { sh.problems.lock().unwrap().push(format!("pending_items_count reported {l}")) } let _ = ch.is_open(); let _ = ch.running(); sched::op_done(); }
            if do_flush {
                // (once a send is suspended, if that comes about) everything accepted so far is being consumed by the polling streams: the flush returns, with nothing left
                let mut k = 0; while sh.suspended_reached.load(SeqCst) == 0 && k < 50 { k += 1; sched::point() }
                let left = super::c07::block_on_paused_counting_attempts(ch.flush(std::time::Duration::ZERO));
                if left != 0 { sh.problems.lock().unwrap().push(format!("flush(unbounded) returned with {left} event(s) reported as still pending")) }
                sh.flushes.fetch_add(1, SeqCst);
                sched::op_done();
            }
        }));
    }
    let rep = sched::run(rc, bodies);
    acc.account(&rep);
    if rep.inconclusive() { if acc.notes.len() < 10 { acc.notes.push(format!("inconclusive {:?}: {} {}", rep.outcome, cfg.json().to_string(), rc.strategy.describe())) } std::mem::forget(ch); return (None, rep.sched_hash, true, false) }
    let suspended_reached = sh.suspended_reached.load(SeqCst) > 0;
    let mut v: Option<J> = None;
    let mut problems: Vec<String> = sh.problems.lock().unwrap().clone();
    for (t, p) in &rep.panics { problems.push(format!("thread t{t} panicked: {p}")) }
    match &rep.outcome {
        Outcome::Stall { spinners, gated } => {
            let lib_sites: Vec<String> = spinners.iter().map(|(_, s)| sched::site_name(*s)).filter(|s| !s.starts_with("H_")).collect();
            let blocked_at = lib_sites.first().cloned().unwrap_or_else(|| "harness-level wait (an expected event or a retryable answer never came)".into());
            let mut uniq = lib_sites.clone(); uniq.sort(); uniq.dedup();
            let sig = J::obj().with("anomaly", J::s("blocked_while_async_send_suspended")).with("kind", J::s(cfg.kind.name())).with("blocked_at", J::s(&blocked_at))
                .with("library_spin_sites", J::s(uniq.join("+"))).with("suspended_threads", J::i(gated.len() as i64)).with("gate_was_open", J::Bool(sh.gate_opened.load(SeqCst)));
            let what = format!("while {} send_with_async call(s) stay suspended, every other runnable thread spins without anybody being able to release it: {}; delivered so far {} of {} accepted",
                cfg.suspended, spinners.iter().map(|(t, s)| format!("t{t}@{}", sched::site_name(*s))).collect::<Vec<_>>().join(", "),
                sh.yielded.iter().map(|y| y.load(SeqCst)).sum::<u32>(), sh.accepted_by_others.load(SeqCst));
            v = Some(J::obj().with("what", J::s(what)).with("sigs", J::Arr(vec![sig])));
            std::mem::forget(ch.clone());
        }
        _ => {
            // everything accepted must have been delivered (the suspended sends' events included, after the gate opened)
            let acc_ids = sh.accepted_ids.lock().unwrap().clone();
            let ys = sh.yielded_ids.lock().unwrap().clone();
            for l in 0..sh.yielded.len() {
                let got: Vec<u64> = ys.iter().filter(|y| !multi || y.0 == l).map(|y| y.1).collect();
                for a in &acc_ids { if !got.contains(a) { problems.push(format!("accepted event {a} was never delivered{}", if multi { format!(" to listener {l}") } else { String::new() })) } }
                let mut d = got.clone(); d.sort(); d.dedup(); if d.len() != got.len() { problems.push("an event was delivered twice".into()) }
            }
        }
    }
    if v.is_none() && !problems.is_empty() {
        problems.truncate(6);
        v = Some(J::obj().with("what", J::s(problems.join("; "))).with("sigs", J::Arr(vec![J::obj().with("anomaly", J::s("delivery")).with("kind", J::s(cfg.kind.name()))])));
    }
    if let Some(v) = v.as_mut() { v.set("config", cfg.json()); v.set("strategy", J::s(rc.strategy.describe())); v.set("outcome", rep.outcome_json()); }
    acc.count("events_delivered_while_a_send_was_suspended", sh.delivered_before_gate.load(SeqCst) as u64);
    acc.count("flushes_completed_while_a_send_was_suspended_or_about_to_be", sh.flushes.load(SeqCst) as u64);
    (v, rep.sched_hash, false, suspended_reached)
}

/// Scenario `single-thread executor`: ONE thread plays a current-thread executor with two tasks -- a `send_with_async` whose setter is suspended, and the consumer of the
/// (only) stream. While the setter is suspended the same thread fills the buffer with plain sends; then the setter is resumed and the tasks are polled in turn. Every
/// single poll must return in a bounded number of its own steps (nobody else exists who could make room: a send that waits for room has to answer Pending, not wait
/// inside `poll`), and in the end everything accepted -- the resumed send's event included -- must have been delivered.
pub fn one_run_single(kind: Kind, n: usize, m: usize, fill_all: bool, rc: &RunCfg, acc: &mut Acc) -> (Option<J>, u64, bool, bool) {
    let ch = chan::make(kind, n, m, false).expect("instantiation");
    let out: Arc<Mutex<(Vec<u64>, Vec<u64>, Vec<String>, bool, bool)>> = Arc::new(Mutex::new((Vec::new(), Vec::new(), Vec::new(), false, false)));   // accepted, yielded, problems, suspended, gate opened
    let (ch2, out2) = (ch.clone(), out.clone());
    let body: Body = Box::new(move || {
        let ch = ch2; let out = out2;
        let mut s = ch.create_stream();
        let w = chan::noop_waker();
        let gate = Gate::new(false);
        let id_a = 0x1000u64;
        let mut f = ch.send_with_async(id_a, gate.clone());
        let mut a_res: Option<SendRes> = None;
        match f.poll_once(&w) { Poll::Ready(r) => a_res = Some(r), Poll::Pending => { out.lock().unwrap().3 = true } }
        sched::op_done();
        // the same thread goes on sending while its async send is suspended: until the buffer is full (kinds that answer 'full') or nearly so
        let budget = if fill_all && !kind.never_rejects() { n + 1 } else { n.saturating_sub(2) };
        for i in 0..budget as u64 {
            let id = 0x100 + i;
            match send_via(&*ch, if i % 2 == 0 { Entry::Send } else { Entry::SendWith }, id) { SendRes::Ok => out.lock().unwrap().0.push(id), SendRes::Full => { sched::op_done(); break } }
            sched::op_done();
        }
        out.lock().unwrap().4 = true;
        gate.open();
        let mut empties = 0;
        for _round in 0..(4 * n + 40) {
            if a_res.is_none() { if let Poll::Ready(r) = f.poll_once(&w) { a_res = Some(r); if r == SendRes::Ok { out.lock().unwrap().0.push(id_a) } } sched::op_done() }
            match s.poll(&w) {
                Poll::Ready(Some(it)) => { if !it.valid { out.lock().unwrap().2.push(format!("corrupted payload (id field {:#x})", it.id)) } out.lock().unwrap().1.push(it.id); drop(it); empties = 0 }
                Poll::Ready(None) => { out.lock().unwrap().2.push("the stream ended by itself".into()); break }
                Poll::Pending => { empties += 1; if a_res.is_some() && empties >= 2 { break } }
            }
            sched::op_done();
        }
        if a_res.is_none() { out.lock().unwrap().2.push("the resumed send_with_async never completed although its task was polled again and again and the consumer drained the channel".into()) }
        drop(s);
    });
    let rep = sched::run(rc, vec![body]);
    acc.account(&rep);
    if rep.inconclusive() { std::mem::forget(ch); return (None, rep.sched_hash, true, false) }
    let o = out.lock().unwrap();
    let mut problems = o.2.clone();
    for (t, p) in &rep.panics { problems.push(format!("thread t{t} panicked: {p}")) }
    let cfgj = J::obj().with("kind", J::s(kind.name())).with("N", J::i(n as i64)).with("M", J::i(m as i64)).with("scenario", J::s("single-thread executor: suspended send_with_async + same-thread sends that fill the buffer + the consumer, all polled by one thread"));
    let mut v: Option<J> = None;
    if let Outcome::Stall { spinners, .. } = &rep.outcome {
        let site = spinners.first().map(|(_, s)| sched::site_name(*s)).unwrap_or_default();
        let sig = J::obj().with("anomaly", J::s("blocked_while_async_send_suspended")).with("kind", J::s(kind.name())).with("blocked_at", J::s(&site)).with("library_spin_sites", J::s(if site.starts_with("H_") { String::new() } else { site.clone() }))
            .with("suspended_threads", J::i(0)).with("gate_was_open", J::Bool(o.4)).with("scenario", J::s("single_thread_executor"));
        v = Some(J::obj().with("what", J::s(format!("single-thread executor: one poll / send on the thread that also runs the consumer did not return within {} of its own steps (last site {site}); {} -- nobody else exists who could make room, the operation has to return",
            rc.max_steps, if o.4 { "the setter had been resumed" } else { "the setter was still suspended" }))).with("sigs", J::Arr(vec![sig])));
        std::mem::forget(ch.clone());
    } else {
        for a in &o.0 { if !o.1.contains(a) { problems.push(format!("accepted event {a} was never delivered")) } }
        let mut d = o.1.clone(); d.sort(); d.dedup(); if d.len() != o.1.len() { problems.push("an event was delivered twice".into()) }
        for y in &o.1 { if !o.0.contains(y) { problems.push(format!("event {y} was delivered but no send reported it as accepted")) } }
    }
    if v.is_none() && !problems.is_empty() { problems.truncate(6); v = Some(J::obj().with("what", J::s(problems.join("; "))).with("sigs", J::Arr(vec![J::obj().with("anomaly", J::s("delivery")).with("kind", J::s(kind.name())).with("scenario", J::s("single_thread_executor"))]))) }
    if let Some(v) = v.as_mut() { v.set("config", cfgj); v.set("strategy", J::s(rc.strategy.describe())); v.set("outcome", rep.outcome_json()); }
    (v, rep.sched_hash, false, o.3)
}

pub fn run(args: &Args, acc: &mut Acc) { run_loop(args, acc, single) }

fn single(args: &Args, acc: &mut Acc, seed: u64, verbose: bool) {
    let mut rng = Rng::new(seed);
    // 1 run in 8: the single-thread executor scenario (kinds whose suspended send does not hold the queue: not the two of C20-D9)
    if rng.chance(1, 8) {
        let kinds: Vec<Kind> = chan::ALL_KINDS.iter().copied().filter(|k| k.has_async_send() && !matches!(k, Kind::UniMoveAtomic | Kind::UniMoveFullSync) && args.only.as_deref().map(|o| k.name() == o).unwrap_or(true)).collect();
        if !kinds.is_empty() {
            let kind = *rng.pick(&kinds);
            let cfgs: Vec<(usize, usize)> = chan::cfgs_for(kind, false).into_iter().filter(|c| c.0 >= 4 && c.0 <= 16 && c.1 <= 2).collect();
            let (n, m) = *rng.pick(&cfgs);
            let fill_all = rng.chance(3, 4);
            let mut rc = RunCfg::ser(seed, crate::sched::Strategy::Random { p_pct: 0 });
            rc.max_steps = 20_000; rc.lone_thread_step_cap_is_stall = true;
            rc.trace = verbose && args.get("trace").is_some();
            let (violation, hash, inconclusive, suspended) = one_run_single(kind, n, m, fill_all, &rc, acc);
            acc.count(&format!("single_thread_executor_runs[{}]", kind.name()), 1);
            if inconclusive { return }
            if suspended { acc.count("runs_with_a_setter_really_suspended", 1); acc.nontrivial(mix(hash ^ seed, kind as u64 * 131 + n as u64 * 17 + fill_all as u64 + 0x51)) }
            if let Some(v) = violation { file_violation(args, acc, seed, verbose, v) }
            return
        }
    }
    let cfg = draw_cfg(&mut rng, args.only.as_deref());
    let nthreads = cfg.streams + cfg.suspended + cfg.others.len() + cfg.len_thread as usize;
    let mut rc = RunCfg::ser(seed, draw_strategy(&mut rng, nthreads, PAUSE_SITES, 200));
    rc.trace = verbose && args.get("trace").is_some();
    let (violation, hash, inconclusive, suspended) = one_run(&cfg, &rc, acc);
    acc.count(&format!("runs[{}]", cfg.kind.name()), 1);
    if inconclusive { return }
    if suspended { acc.count("runs_with_a_setter_really_suspended", 1); acc.nontrivial(mix(hash, cfg.kind as u64 * 131 + cfg.n as u64 * 17 + cfg.same_thread.len() as u64 * 7 + cfg.others.len() as u64)) }
    acc.sample(3, || J::obj().with("config", cfg.json()).with("strategy", J::s(rc.strategy.describe())));
    if let Some(v) = violation { file_violation(args, acc, seed, verbose, v) }
}
