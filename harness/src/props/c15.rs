//! C15 -- behaviour is independent of how many events flowed before (counter wrap-around).
//!
//! Differential replay: one single-threaded script is run on a freshly created object (sequence counters at 0) and on one
//! whose counters start at `k` (constructor-time sequence origin, feature `verif`), for k swept over the window around the
//! 32-bit boundary and random values; the observable transcripts (every result, delivered value, reported length, panic)
//! must be identical. Targets: every Uni / Multi channel kind built on the two rings, the two raw rings, the pool allocator
//! (free list) and the stream-id FIFO. Run in the `fast` and in the `checked` (overflow checks on) builds.

use crate::chan::{self, Kind};
use crate::common::{file_violation, run_loop, Acc, Args};
use crate::drive::Entry;
use crate::json::J;
use crate::payload::{DTok, Payload, Tok};
use crate::sched::{mix, Rng};
use crate::seq::{self, Engine, Op, R};
use reactive_mutiny::ogre_std::ogre_queues::{atomic::atomic_move::AtomicMove, full_sync::full_sync_move::FullSyncMove, meta_container::MoveContainer, meta_publisher::MovePublisher, meta_subscriber::MoveSubscriber};
use reactive_mutiny::verif as rv;

fn panic_text(e: Box<dyn std::any::Any + Send>) -> String { e.downcast_ref::<String>().cloned().or_else(|| e.downcast_ref::<&str>().map(|s| s.to_string())).unwrap_or_else(|| "<panic>".into()) }

// ---- channels -----------------------------------------------------------------------------------------------------------------

fn chan_transcript(kind: Kind, n: usize, m: usize, streams: usize, droppy: bool, origin: Option<u32>, script: &[Op], leftovers: bool) -> Vec<R> {
    let r = std::panic::catch_unwind(std::panic::AssertUnwindSafe(|| {
        let mut eng = Engine::new(kind, n, m, streams, droppy, origin).expect("instantiation");
        eng.check_model = false;
        for op in script { eng.step(*op); }
        if !leftovers { eng.finish(false) }
        let before = crate::payload::RAW_DROPS.load(std::sync::atomic::Ordering::SeqCst);
        let mut t = eng.teardown().0;
        // (payloads with a destructor) how many were destroyed by the teardown: leftovers must be destroyed whatever the counters' values
        if droppy { t.push(R::Len((crate::payload::RAW_DROPS.load(std::sync::atomic::Ordering::SeqCst) - before) as u32)) }
        t
    }));
    match r { Ok(t) => t, Err(e) => vec![R::Panic(panic_text(e))] }
}

/// what is known about a script that did not return: how many of its operations had answered, how many hook sites the thread had passed when the wait was given
/// up and 1.5 s later (still taking steps = the library keeps retrying something), how long the fresh object took for the whole script
#[derive(Clone, Debug)]
pub struct Hung { pub answered: usize, pub steps_then: u64, pub steps_later: u64, pub waited_ms: u64 }

/// `chan_transcript` on a thread of its own, given up after `wait`: the answers obtained so far are returned together with what is known about the thread, which is
/// left behind (it may sit in one of the library's wait loops for good)
fn chan_transcript_guarded(kind: Kind, n: usize, m: usize, streams: usize, droppy: bool, origin: Option<u32>, script: &[Op], leftovers: bool, wait: std::time::Duration) -> (Vec<R>, Option<Hung>) {
    use std::sync::{atomic::{AtomicU64, Ordering::SeqCst}, Arc, Mutex};
    let progress: Arc<Mutex<Vec<R>>> = Arc::new(Mutex::new(Vec::new()));
    let steps = Arc::new(AtomicU64::new(0));
    let (tx, rx) = std::sync::mpsc::channel();
    let (p2, s2, script2) = (progress.clone(), steps.clone(), script.to_vec());
    std::thread::Builder::new().name("c15-script".into()).spawn(move || {
        crate::sched::count_steps_into(s2);
        let r = std::panic::catch_unwind(std::panic::AssertUnwindSafe(|| {
            let mut eng = Engine::new(kind, n, m, streams, droppy, origin).expect("instantiation");
            eng.check_model = false;
            for op in &script2 { let r = eng.step(*op); p2.lock().unwrap().push(r); }
            if !leftovers { eng.finish(false) }
            let before = crate::payload::RAW_DROPS.load(SeqCst);
            let mut t = eng.teardown().0;
            if droppy { t.push(R::Len((crate::payload::RAW_DROPS.load(SeqCst) - before) as u32)) }
            t
        }));
        let _ = tx.send(match r { Ok(t) => t, Err(e) => vec![R::Panic(panic_text(e))] });
    }).expect("spawn");
    let t0 = std::time::Instant::now();
    match rx.recv_timeout(wait) {
        Ok(t) => (t, None),
        Err(_) => {
            let a = steps.load(SeqCst);
            std::thread::sleep(std::time::Duration::from_millis(1500));
            let b = steps.load(SeqCst);
            if let Ok(t) = rx.try_recv() { return (t, None) }       // (it made it after all: a slow machine)
            crate::sched::LEAKED_THREADS.fetch_add(1000, SeqCst);   // (a few of these and the shard stops early; the driver goes on in a fresh process)
            let partial = progress.lock().unwrap().clone();
            let answered = partial.len();
            (partial, Some(Hung { answered, steps_then: a, steps_later: b, waited_ms: t0.elapsed().as_millis() as u64 }))
        }
    }
}

// ---- raw rings ----------------------------------------------------------------------------------------------------------------

#[derive(Clone, Copy, Debug)]
enum RingOp { Pub, PubWith, Cons, Len }

fn ring_transcript<P: Payload, Q: MoveContainer<P> + MovePublisher<P> + MoveSubscriber<P>>(origin: Option<u32>, script: &[RingOp]) -> Vec<R> {
    let r = std::panic::catch_unwind(std::panic::AssertUnwindSafe(|| {
        rv::set_sequence_origin(origin); let q = Q::new(); rv::set_sequence_origin(None);
        let mut t = Vec::new(); let mut next = 1u64;
        for op in script {
            t.push(match op {
                RingOp::Pub => { let id = next; next += 1; if q.publish_movable(P::make(id)).0.is_some() { R::Ok } else { R::Full } }
                RingOp::PubWith => { let id = next; next += 1; let mut l = 0; if q.publish(|s| unsafe { std::ptr::write(s, P::make(id)) }, || false, |len| l = len).is_none() { R::Len(l) } else { R::Full } }
                RingOp::Cons => match q.consume_movable() { Some(tok) => if tok.valid() { R::Got(tok.id()) } else { R::Got(u64::MAX) }, None => R::Nothing },
                RingOp::Len => R::Len(q.available_elements_count() as u32),
            });
        }
        // teardown with whatever is left (payloads with a destructor: the leftovers must be destroyed, whatever the counters' values)
        let before = crate::payload::RAW_DROPS.load(std::sync::atomic::Ordering::SeqCst);
        drop(q);
        if P::DROPPY { t.push(R::Len((crate::payload::RAW_DROPS.load(std::sync::atomic::Ordering::SeqCst) - before) as u32)) }
        t
    }));
    match r { Ok(t) => t, Err(e) => vec![R::Panic(panic_text(e))] }
}

// ---- pool allocator (free list) -----------------------------------------------------------------------------------------------

#[derive(Clone, Copy, Debug)]
enum PoolOp { Alloc, DeallocOldest, DeallocNewest }

fn pool_transcript(ring: &str, n: usize, origin: Option<u32>, script: &[PoolOp]) -> Vec<R> {
    let r = std::panic::catch_unwind(std::panic::AssertUnwindSafe(|| {
        let p = super::c13::make_pool(ring, n, origin);
        let mut held: Vec<u32> = Vec::new(); let mut t = Vec::new();
        for op in script {
            t.push(match op {
                PoolOp::Alloc => match p.alloc(false, 7) { Some((addr, id)) => { held.push(id); if addr != p.addr_of(id) { R::Got(u64::MAX) } else { R::Got(id as u64) } } None => R::Nothing },
                PoolOp::DeallocOldest => if held.is_empty() { R::Skipped } else { let id = held.remove(0); p.dealloc(id, false); R::True },
                PoolOp::DeallocNewest => if held.is_empty() { R::Skipped } else { let id = held.pop().unwrap(); p.dealloc(id, true); R::True },
            });
        }
        t
    }));
    match r { Ok(t) => t, Err(e) => vec![R::Panic(panic_text(e))] }
}

// ---- stream-id FIFO -----------------------------------------------------------------------------------------------------------

#[derive(Clone, Copy, Debug)]
enum IdOp { Create, DropOldest, DropNewest, Running }

fn ids_transcript(kind: Kind, n: usize, m: usize, origin: Option<u32>, script: &[IdOp]) -> Vec<R> {
    let r = std::panic::catch_unwind(std::panic::AssertUnwindSafe(|| {
        rv::set_sequence_origin(origin); let ch = chan::make(kind, n, m, false).expect("instantiation"); rv::set_sequence_origin(None);
        let mut live = Vec::new(); let mut t = Vec::new();
        for op in script {
            t.push(match op {
                IdOp::Create => if live.len() >= m { R::Skipped } else { let s = ch.create_stream(); let id = s.id(); live.push(s); R::Got(id as u64) },
                IdOp::DropOldest => if live.is_empty() { R::Skipped } else { drop(live.remove(0)); R::True },
                IdOp::DropNewest => if live.is_empty() { R::Skipped } else { drop(live.pop()); R::True },
                IdOp::Running => R::Len(ch.running()),
            });
        }
        drop(live);
        t
    }));
    match r { Ok(t) => t, Err(e) => vec![R::Panic(panic_text(e))] }
}

// ---- driver -------------------------------------------------------------------------------------------------------------------

fn origin_for(rng: &mut Rng, n: usize, sweep: u64) -> u32 {
    let n = n.max(2) as u32;
    match rng.below(4) {
        0 | 1 => 0u32.wrapping_sub(3 * n).wrapping_add((sweep % (5 * n as u64 + 1)) as u32),       // the whole window [2^32 - 3N, 2^32 + 2N], swept run after run
        2 => 0u32.wrapping_sub(rng.below(4 * n as u64 + 2) as u32),
        _ => rng.next() as u32,
    }
}

fn first_difference(a: &[R], b: &[R]) -> Option<usize> { (0..a.len().max(b.len())).find(|i| a.get(*i) != b.get(*i)) }

fn single(args: &Args, acc: &mut Acc, seed: u64, verbose: bool) {
    let mut rng = Rng::new(seed);
    let targets = ["channel", "channel", "channel", "ring.atomic", "ring.full_sync", "pool", "stream_ids"];
    let target = match args.only.as_deref() { Some(o) if targets.contains(&o) => o, _ => *rng.pick(&targets) };
    let sweep = acc.evaluations;
    let mut hung: Option<Hung> = None;
    let mut fresh_ms = 0u64;
    let (what, n, k, t0, tk, script_json): (String, usize, u32, Vec<R>, Vec<R>, J) = match target {
        "channel" => {
            let kinds: Vec<Kind> = chan::ALL_KINDS.iter().copied().filter(|k| *k != Kind::MultiMmap && *k != Kind::UniMoveCrossbeam && *k != Kind::MultiArcCrossbeam && args.only.as_deref().map(|o| o == "channel" || k.name() == o).unwrap_or(true)).collect();
            let kind = *rng.pick(&kinds);
            let droppy = rng.chance(1, 3) && !kind.has_reserve();
            let (n, m) = *rng.pick(&chan::cfgs_for(kind, droppy));
            let streams = 1 + rng.below(m.min(2) as u64) as usize;
            let mut alpha: Vec<Op> = vec![Op::Send(Entry::Send), Op::Send(Entry::SendWith), Op::Send(Entry::SendAsync), Op::Poll(0), Op::PollDrop(0), Op::Len, Op::ReleaseOldest];
            if kind.has_reserve() && !droppy { alpha.extend([Op::Reserve, Op::SendResvOldest, Op::CancelNewest, Op::Send(Entry::Reserve)]) }
            if streams > 1 { alpha.push(Op::Poll(1)) }
            let len = 3 + rng.below(if args.thorough() { 300 } else { 120 }) as usize;
            let mut dry = Engine::new(kind, n, m, streams, false, None).unwrap(); dry.check_model = false;
            let mut script = Vec::new();
            for _ in 0..len { let mut op = *rng.pick(&alpha); let mut tr = 0; while !dry.legal(op) && tr < 20 { op = *rng.pick(&alpha); tr += 1 } if !dry.legal(op) { break } dry.step(op); script.push(op) }
            let _ = dry.teardown();
            let leftovers = rng.chance(1, 3);
            let k = origin_for(&mut rng, n, sweep);
            if droppy { crate::payload::tracker().set_enabled(false) }
            let started = std::time::Instant::now();
            let t0 = chan_transcript(kind, n, m, streams, droppy, None, &script, leftovers);
            fresh_ms = started.elapsed().as_millis() as u64;
            // the same script on the object whose counters start at k, on a thread of its own: should it not return (the fresh object just did, in `fresh_ms`),
            // the answers it gave so far are compared all the same
            let (tk, h) = chan_transcript_guarded(kind, n, m, streams, droppy, Some(k), &script, leftovers, std::time::Duration::from_millis(5000 + 200 * fresh_ms));
            hung = h;
            if droppy { crate::payload::tracker().set_enabled(true); let _ = crate::payload::tracker().take_problems(); }
            (format!("{}<N={n},M={m}>{}{}", kind.name(), if droppy { " droppable payload" } else { "" }, if leftovers { " teardown with leftovers" } else { "" }), n, k, t0, tk, seq::script_json(&script[..script.len().min(60)]))
        }
        "ring.atomic" | "ring.full_sync" => {
            let n = *rng.pick(&[2usize, 4, 8]);
            let len = 3 + rng.below(200) as usize;
            let script: Vec<RingOp> = (0..len).map(|_| match rng.below(10) { 0..=3 => RingOp::Pub, 4 => RingOp::PubWith, 5..=8 => RingOp::Cons, _ => RingOp::Len }).collect();
            let k = origin_for(&mut rng, n, sweep);
            let droppy = rng.chance(1, 3);
            macro_rules! go { ($t:ident, $p:ident, $($N:literal),*) => { match n { $($N => (ring_transcript::<$p, $t<$p, $N>>(None, &script), ring_transcript::<$p, $t<$p, $N>>(Some(k), &script)),)* _ => unreachable!() } } }
            if droppy { crate::payload::tracker().set_enabled(false); acc.count("ring_scripts_with_a_payload_destructor(leftovers_destroyed_at_teardown_compared)", 1) }
            let (t0, tk) = match (target == "ring.atomic", droppy) { (true, false) => go!(AtomicMove, Tok, 2, 4, 8), (true, true) => go!(AtomicMove, DTok, 2, 4, 8), (false, false) => go!(FullSyncMove, Tok, 2, 4, 8), (false, true) => go!(FullSyncMove, DTok, 2, 4, 8) };
            if droppy { crate::payload::tracker().set_enabled(true); let _ = crate::payload::tracker().take_problems(); }
            (format!("{target}<N={n}>{}", if droppy { " payload with destructor" } else { "" }), n, k, t0, tk, J::s(format!("{:?}", &script[..script.len().min(60)])))
        }
        "pool" => {
            let n = *rng.pick(&[2usize, 4, 8]); let ring = *rng.pick(&["atomic", "full_sync"]);
            let len = 3 + rng.below(200) as usize;
            let script: Vec<PoolOp> = (0..len).map(|_| match rng.below(10) { 0..=5 => PoolOp::Alloc, 6..=7 => PoolOp::DeallocOldest, _ => PoolOp::DeallocNewest }).collect();
            let k = origin_for(&mut rng, n, sweep);
            (format!("pool allocator over the {ring} ring<POOL_SIZE={n}>"), n, k, pool_transcript(ring, n, None, &script), pool_transcript(ring, n, Some(k), &script), J::s(format!("{:?}", &script[..script.len().min(60)])))
        }
        _ => {
            let kind = *rng.pick(&chan::ALL_KINDS.iter().copied().filter(|k| *k != Kind::MultiMmap).collect::<Vec<_>>());
            let (n, m) = *rng.pick(&chan::cfgs_for(kind, false));
            let len = 3 + rng.below(120) as usize;
            let script: Vec<IdOp> = (0..len).map(|_| match rng.below(10) { 0..=4 => IdOp::Create, 5..=6 => IdOp::DropOldest, 7..=8 => IdOp::DropNewest, _ => IdOp::Running }).collect();
            let k = origin_for(&mut rng, m, sweep);
            (format!("stream-id FIFO of {}<N={n},M={m}>", kind.name()), m, k, ids_transcript(kind, n, m, None, &script), ids_transcript(kind, n, m, Some(k), &script), J::s(format!("{:?}", &script[..script.len().min(60)])))
        }
    };
    acc.evaluations += 1;
    acc.count(&format!("scripts[{target}]"), 1);
    acc.count("transcript_entries_compared", t0.len().max(tk.len()) as u64);
    let near = k > u32::MAX - 4 * n.max(2) as u32 || k < 3 * n.max(2) as u32;
    if near { acc.count("origins_within_the_window_around_the_32bit_boundary", 1) }
    acc.nontrivial(mix(t0.iter().fold(seed & 0xFF, |h, r| mix(h, match r { R::Ok => 1, R::Full => 2, R::Got(i) => 3 + (*i << 4), R::Nothing => 4, R::True => 5, R::False => 6, R::Len(l) => 7 + ((*l as u64) << 4), R::Skipped => 8, R::Panic(_) => 9 })), k as u64));
    acc.sample(3, || J::obj().with("target", J::s(&what)).with("origin_k", J::i(k as i64)).with("script", script_json.clone()).with("transcript_head", J::Arr(t0.iter().take(12).map(|r| J::s(format!("{:?}", r))).collect())));
    if let Some(h) = &hung {
        // the script did not return on the object with advanced counters. Evidence, in this order: (1) an answer that already differs within what both runs completed --
        // decided below like any other difference; (2) the thread is still taking steps (the library retries something, for seconds, that took the fresh object no time):
        // the operation does not complete -- a violation; (3) no step in 1.5 s: nothing can be said (inconclusive)
        acc.count("scripts_that_did_not_return_with_advanced_counters", 1);
        let differs_already = (0..h.answered.min(t0.len())).any(|i| t0.get(i) != tk.get(i));
        if !differs_already {
            if h.steps_later > h.steps_then {
                let v = J::obj()
                    .with("what", J::s(format!("{what}: with the sequence counters starting at {k} ({k:#x}) operation #{} of the script ({:?}) does not return: {} ms after the start the library is still retrying ({} hook sites passed, {} more in the next 1.5 s); the fresh object answered the whole script of {} operations in {fresh_ms} ms (that answer: {:?})", h.answered, t0.get(h.answered), h.waited_ms, h.steps_then, h.steps_later - h.steps_then, t0.len(), t0.get(h.answered))))
                    .with("sigs", J::Arr(vec![J::obj().with("anomaly", J::s("does_not_return_with_advanced_counters")).with("target", J::s(target)).with("flavor", J::s(&args.flavor)).with("origin_in_wrap_window", J::Bool(near))]))
                    .with("origin_k", J::i(k as i64)).with("script", script_json.clone()).with("transcript_fresh", J::Arr(t0.iter().take(80).map(|r| J::s(format!("{:?}", r))).collect()))
                    .with("transcript_origin_k_until_it_stopped_answering", J::Arr(tk.iter().take(80).map(|r| J::s(format!("{:?}", r))).collect()));
                file_violation(args, acc, seed, verbose, v);
            } else { acc.inconclusive += 1; acc.count("scripts_that_did_not_return_and_took_no_step_either(inconclusive)", 1) }
            return
        }
    }
    if let Some(i) = first_difference(&t0, &tk[..if hung.is_some() { tk.len().min(t0.len()) } else { tk.len() }]).filter(|i| hung.is_none() || *i < tk.len()) {
        let panicked = matches!(tk.get(0), Some(R::Panic(_))) || matches!(t0.get(0), Some(R::Panic(_)));
        let v = J::obj()
            .with("what", J::s(format!("{what}: the same script answers differently when the sequence counters start at {k} ({:#x}) instead of 0: step {i}: fresh -> {:?}, after {k} earlier events -> {:?}", k, t0.get(i), tk.get(i))))
            .with("sigs", J::Arr(vec![J::obj().with("anomaly", J::s(if panicked { "panic_only_with_advanced_counters" } else { "transcripts_differ" })).with("target", J::s(target)).with("flavor", J::s(&args.flavor)).with("origin_in_wrap_window", J::Bool(near))]))
            .with("origin_k", J::i(k as i64)).with("script", script_json).with("transcript_fresh", J::Arr(t0.iter().take(80).map(|r| J::s(format!("{:?}", r))).collect()))
            .with("transcript_origin_k", J::Arr(tk.iter().take(80).map(|r| J::s(format!("{:?}", r))).collect()));
        file_violation(args, acc, seed, verbose, v);
    }
}

pub fn run(args: &Args, acc: &mut Acc) { run_loop(args, acc, single) }
