//! C05 -- payloads are destroyed exactly once and their storage is never reused while held; clean teardown.
//!
//! Histories of send / receive / clone / unique->shared conversion / hold-across-sends / drops performed on other threads /
//! channel teardown with 0..N events still buffered (all handles released first). Payload `DTok` reports every destructor
//! call to the drop tracker (double drop, drop while a handle is held, destructor on garbage); every handle re-reads its
//! payload when it is released (storage reuse / destruction under a live handle). The same workloads run in the
//! AddressSanitizer build (and under Miri in the thorough tier), teardown included.

use crate::chan::{self, Item, Kind};
use crate::common::{draw_strategy, file_violation, run_loop, Acc, Args};
use crate::drive::{entries_for, producer_body, stamp, Entry, OnExit, ProdLog};
use crate::json::J;
use crate::payload::tracker;
use crate::sched::{self, mix, Body, Lane, Outcome, Rng, RunCfg};
use reactive_mutiny::verif as rv;
use std::collections::{HashMap, HashSet};
use std::sync::{atomic::{AtomicBool, AtomicU32, Ordering::SeqCst}, Arc, Mutex};
use std::task::Poll;

pub const KINDS: [Kind; 10] = [Kind::UniMoveAtomic, Kind::UniMoveFullSync, Kind::UniMoveCrossbeam, Kind::UniZcAtomic, Kind::UniZcFullSync,
                               Kind::MultiArcAtomic, Kind::MultiArcFullSync, Kind::MultiArcCrossbeam, Kind::MultiOgreAtomic, Kind::MultiOgreFullSync];

#[derive(Clone, Debug)]
pub struct Cfg { pub kind: Kind, pub n: usize, pub m: usize, pub droppy: bool, pub streams: usize, pub entries: Vec<Entry>, pub per_prod: u32, pub stop_after: Vec<Option<u32>>, pub keep_max: u32, pub dropper: bool,
    /// (Multi kinds) a further thread creates and drops listeners while the sends are going on, keeps some of the handles those listeners yielded beyond the listener's own life
    pub churn: bool,
    /// what is left half-done when the channel is torn down: 0 nothing, 1 a slot that was reserved and neither sent nor cancelled (nothing written into it: it still holds
    /// the bytes of whatever was moved out of it before), 2 a `send_with_async` whose future was dropped while its setter was suspended (a cancelled task)
    pub open_at_teardown: u8 }
impl Cfg {
    pub fn json(&self) -> J {
        J::obj().with("kind", J::s(self.kind.name())).with("N", J::i(self.n as i64)).with("M", J::i(self.m as i64)).with("payload_with_destructor", J::Bool(self.droppy)).with("streams", J::i(self.streams as i64))
            .with("producers", J::Arr(self.entries.iter().map(|e| J::s(e.name())).collect())).with("events_per_producer", J::i(self.per_prod as i64))
            .with("left_half_done_at_teardown", J::s(["nothing", "a reserved slot (neither sent nor cancelled)", "a send_with_async cancelled while its setter was suspended"][self.open_at_teardown as usize]))
            .with("consumers_stop_after(leftovers_at_teardown)", J::s(format!("{:?}", self.stop_after))).with("handles_kept_at_most", J::i(self.keep_max as i64)).with("clones_dropped_on_another_thread", J::Bool(self.dropper)).with("listeners_created_and_dropped_during_the_sends", J::Bool(self.churn))
    }
}

pub const PAUSE_SITES: &[u32] = &[rv::ARC_CLONE_BEFORE, rv::ARC_INCREMENT_BEFORE, rv::ARC_DROP_BEFORE, rv::ARC_DROP_AFTER_DEC, rv::ARC_DROP_AFTER_DEALLOC, rv::UNIQUE_DROP_BEFORE, rv::DEALLOC_AFTER_DROP,
    rv::ALLOC_AFTER_DEQUEUE, rv::AM_CONSUME_AFTER_READ, rv::AM_CONSUME_AFTER_RESERVE, rv::AM_RELEASE_AFTER, rv::AM_PUBLISH_BEFORE, rv::AM_LEAK_AFTER_RESERVE, rv::FS_CONSUME_AFTER_READ,
    rv::MULTI_FANOUT_AFTER_INCREMENT, rv::MULTI_FANOUT_BEFORE_PUBLISH];

pub fn draw_cfg(rng: &mut Rng, only: Option<&str>, lane: Lane) -> Cfg {
    let kinds: Vec<Kind> = KINDS.iter().copied().filter(|k| only.map(|o| k.name() == o).unwrap_or(true)).collect();
    let kind = *rng.pick(&kinds);
    let droppy = rng.chance(4, 5);
    let (n, m) = *rng.pick(&chan::cfgs_for(kind, droppy));
    let mut streams = 1 + rng.below(m.min(3) as u64) as usize;
    let churn = kind.is_multi() && m >= 2 && rng.chance(1, 3) && !cfg!(miri);      // (not under Miri: the fan-out reading the listener list while it is rewritten trips Tree Borrows on the unchanged tree, DESIGN 6.5)
    if churn { streams = streams.min(m - 1) }
    let mut nprod = 1 + rng.below(3) as usize;
    let mut per_prod = if lane == Lane::Ser { 1 + rng.below(4) as u32 } else { 20 + rng.below(600) as u32 };
    if kind.never_rejects() { while per_prod as usize * nprod > n { if per_prod > 1 { per_prod -= 1 } else { nprod -= 1 } } }
    // a droppable payload must be written with ptr::write by every setter; reservations are sent, never cancelled (a cancelled slot's bytes would be dropped by the pool)
    let mut es = entries_for(kind); es.retain(|e| *e != Entry::SendAsyncSuspended);
    if kind == Kind::UniMoveCrossbeam && lane == Lane::Ser { es = vec![Entry::Send] }
    let entries: Vec<Entry> = (0..nprod).map(|_| *rng.pick(&es)).collect();
    let stop_after: Vec<Option<u32>> = (0..streams).map(|_| if rng.chance(1, 3) { Some(rng.below(1 + (per_prod * nprod as u32).min(6) as u64) as u32) } else { None }).collect();
    let open_at_teardown = match rng.below(4) { 0 if kind.has_reserve() => 1, 1 if kind.has_async_send() => 2, _ => 0 };
    Cfg { kind, n, m, droppy, streams, entries, per_prod, stop_after, keep_max: rng.below(n as u64 + 1).min(4) as u32, dropper: rng.chance(2, 3), churn, open_at_teardown }
}

#[derive(Default)]
struct CLog { yields: Mutex<Vec<(u64, bool)>>, released_all: AtomicBool }

fn consumer(mut strm: Box<dyn chan::Strm>, cfg: Cfg, idx: usize, log: Arc<CLog>, mailbox: Arc<Mutex<Vec<Item>>>, done: Arc<AtomicU32>, nprod: u32, seed: u64) -> Body {
    Box::new(move || {
        let w = chan::noop_waker();
        let mut rng = Rng::new(seed ^ 0xC05 ^ ((idx as u64) << 32));
        let mut held: Vec<Item> = Vec::new();
        let mut got = 0u32;
        let mut empties_after_done = 0;
        loop {
            if let Some(k) = cfg.stop_after[idx] { if got >= k { break } }
            match strm.poll(&w) {
                Poll::Ready(Some(item)) => {
                    got += 1;
                    log.yields.lock().unwrap().push((item.id, item.valid));
                    empties_after_done = 0;
                    match rng.below(6) {
                        0 => drop(item),
                        1 => held.push(item),
                        2 => { if let Some(c) = item.try_clone() { if cfg.dropper { mailbox.lock().unwrap().push(c) } else { held.push(c) } } held.push(item) }
                        3 => { let sh = item.into_shared(); if let Some(c) = sh.try_clone() { if cfg.dropper { mailbox.lock().unwrap().push(c) } else { drop(c) } } held.push(sh) }
                        4 => { let sh = item.into_shared(); if cfg.dropper { mailbox.lock().unwrap().push(sh) } else { drop(sh) } }
                        _ => { if let Some(c) = item.try_clone() { drop(item); held.push(c) } else { held.push(item) } }
                    }
                    while held.len() > cfg.keep_max as usize { let i = rng.below(held.len() as u64) as usize; let h = held.remove(i); drop(h) }
                    sched::op_done();
                }
                Poll::Ready(None) => break,
                Poll::Pending => {
                    if !held.is_empty() && rng.chance(1, 2) { let h = held.remove(0); drop(h); sched::op_done(); continue }
                    if done.load(SeqCst) == nprod { empties_after_done += 1; if empties_after_done >= 2 { break } }
                    sched::spin();
                }
            }
        }
        while let Some(h) = held.pop() { drop(h); sched::op_done() }
        log.released_all.store(true, SeqCst);
        let _ = stamp();
        drop(strm);
    })
}

pub fn one_run(cfg: &Cfg, rc: &RunCfg, acc: &mut Acc) -> (Option<J>, u64, bool) {
    let ch = chan::make(cfg.kind, cfg.n, cfg.m, cfg.droppy).expect("instantiation");
    let shift = if cfg.per_prod < 250 { 8 } else { 12 };
    tracker().reset((cfg.entries.len() + 2) << shift);
    let mut strms: Vec<_> = (0..cfg.streams).map(|_| ch.create_stream()).collect();
    if rc.lane == Lane::Free { for s in strms.iter_mut() { crate::drive::preregister_noop(s) } }
    let clogs: Vec<Arc<CLog>> = (0..cfg.streams).map(|_| Arc::new(CLog::default())).collect();
    let plogs: Vec<Arc<ProdLog>> = cfg.entries.iter().map(|_| Arc::new(ProdLog::default())).collect();
    let done = Arc::new(AtomicU32::new(0));
    let consumers_done = Arc::new(AtomicU32::new(0));
    let mailbox: Arc<Mutex<Vec<Item>>> = Arc::new(Mutex::new(Vec::new()));
    let nprod = cfg.entries.len() as u32;
    let mut bodies: Vec<Body> = Vec::new();
    for (i, (s, l)) in strms.into_iter().zip(clogs.iter()).enumerate() {
        let inner = consumer(s, cfg.clone(), i, l.clone(), mailbox.clone(), done.clone(), nprod, rc.seed);
        let cd = consumers_done.clone();
        bodies.push(Box::new(move || { let _g = OnExit(Some(move || { cd.fetch_add(1, SeqCst); })); inner() }));
    }
    for (p, (e, l)) in cfg.entries.iter().zip(plogs.iter()).enumerate() {
        let ids: Vec<u64> = (0..cfg.per_prod as u64).map(|i| ((p as u64 + 1) << shift) | (i + 1)).collect();
        let inner = producer_body(ch.clone(), *e, ids, if rc.lane == Lane::Free { 300 } else { 2 }, l.clone());
        let d = done.clone();
        bodies.push(Box::new(move || { let _g = OnExit(Some(move || { d.fetch_add(1, SeqCst); })); inner() }));
    }
    if cfg.churn {
        // listeners that come and go during the sends; the handles they were given may outlive them (never the channel). With listeners changing, "who is owed what" is
        // C17's subject: here only the payload-lifetime monitors count (destroyed twice / while a handle is held / on garbage, storage changed under a handle, sanitizer reports)
        let (ch, d, seed, lane) = (ch.clone(), done.clone(), rc.seed, rc.lane);
        bodies.push(Box::new(move || {
            let w = chan::noop_waker();
            let mut rng = Rng::new(seed ^ 0xC4_05);
            let mut kept: Vec<Item> = Vec::new();
            let rounds = if lane == Lane::Free { 400 } else { 4 };
            for _ in 0..rounds {
                let mut s = ch.create_stream();
                sched::op_done();
                for _ in 0..rng.below(4) { if let Poll::Ready(Some(it)) = s.poll(&w) { if rng.chance(1, 2) { kept.push(it) } else { drop(it) } } sched::op_done() }
                drop(s);
                sched::op_done();
                while kept.len() > 2 { let h = kept.remove(0); drop(h); sched::op_done() }
                if d.load(SeqCst) == nprod { break }
            }
            while let Some(h) = kept.pop() { drop(h); sched::op_done() }
        }));
    }
    if cfg.dropper {
        let (mb, cd, ns) = (mailbox.clone(), consumers_done.clone(), cfg.streams as u32);
        bodies.push(Box::new(move || {
            loop {
                let batch: Vec<Item> = std::mem::take(&mut *mb.lock().unwrap());
                let fin = cd.load(SeqCst) == ns;
                if batch.is_empty() { if fin { break } sched::spin(); continue }
                for it in batch { drop(it); sched::op_done() }
            }
        }));
    }
    let rep = sched::run(rc, bodies);
    acc.account(&rep);
    if rc.trace { sched::dump_trace(&rep) }
    if rep.inconclusive() { std::mem::forget(ch); return (None, rep.sched_hash, true) }
    let mut probs: Vec<(String, String)> = Vec::new();
    for (t, p) in &rep.panics { probs.push(("panic".into(), format!("thread t{t} panicked: {p}"))) }
    if let Outcome::Stall { .. } = rep.outcome { probs.push(("stall".into(), format!("run stalled: {}", rep.outcome_json().to_string()))); std::mem::forget(ch.clone()) }
    mailbox.lock().unwrap().clear();                 // (empty unless the run was cut short)
    let classify = |p: &str| -> &'static str { if p.starts_with("double-drop") { "double_drop" } else if p.starts_with("drop-while-held") { "drop_while_held" } else if p.starts_with("garbage-drop") { "garbage_drop" } else if p.starts_with("changed-under-handle") { "storage_reused_or_destroyed_while_held" } else { "tracker" } };
    for p in tracker().take_problems() { probs.push((classify(&p).into(), p)) }
    let mut accepted: Vec<u64> = Vec::new();
    for l in &plogs { accepted.extend(l.accepted.lock().unwrap().iter()) }
    let complete = rep.outcome == Outcome::Done;
    let mut leftovers = 0usize;
    if cfg.churn { acc.count("runs_with_listeners_created_and_dropped_during_the_sends", 1) }
    if complete && probs.is_empty() && !cfg.churn {
        // quiescent: every handle was released. Delivered-and-released events must have been destroyed exactly once by now.
        let mut delivered: HashMap<u64, usize> = HashMap::new();
        for l in &clogs { for (id, valid) in l.yields.lock().unwrap().iter() { if !*valid { probs.push(("corrupt".into(), format!("a corrupted payload was delivered (id field {id:#x})"))) } *delivered.entry(*id).or_insert(0) += 1 } }
        let acc_set: HashSet<u64> = accepted.iter().copied().collect();
        if cfg.droppy {
            for a in &accepted {
                // a rejected attempt hands its payload back to the caller, who destroys it and builds a new one for the retry: what counts is
                // the number of instances of this event still alive = created - destroyed
                let (c, d) = (tracker().created_of(*a), tracker().drops_of(*a));
                let alive = c as i64 - d as i64;
                let fully_delivered = if cfg.kind.is_multi() { delivered.get(a).copied().unwrap_or(0) == cfg.streams } else { delivered.contains_key(a) };
                if fully_delivered && alive != 0 { probs.push((if alive > 0 { "not_destroyed_after_last_release" } else { "double_drop" }.into(), format!("event {a} was delivered and every handle to it released: {c} instance(s) were created, the destructor ran {d} time(s)"))) }
                // (Multi with a listener that left early: an event sent after it left is not owed to it -- "not delivered to every stream" does not imply "still buffered" there)
                let entitlement_known = !cfg.kind.is_multi() || cfg.stop_after.iter().all(|s| s.is_none());
                if !fully_delivered { leftovers += 1; if alive != 1 && entitlement_known { probs.push(("destroyed_while_buffered".into(), format!("event {a} is still buffered (not delivered to every stream): {c} instance(s) created, destructor ran {d} time(s) -- exactly one must be alive"))) } }
            }
        } else { leftovers = accepted.iter().filter(|a| !delivered.contains_key(a)).count() }
        for id in delivered.keys() { if !acc_set.contains(id) { probs.push(("never_accepted".into(), format!("event {id} was delivered but never accepted"))) } }
        // with nothing left over: the channel accepts BUFFER_SIZE new events again
        if probs.is_empty() && leftovers == 0 && !cfg.kind.never_rejects() && cfg.stop_after.iter().all(|s| s.is_none()) {
            tracker().set_enabled(false);
            match super::c16::probe_capacity(&ch) { Ok(_) => acc.count("capacity_probes_ok", 1), Err(e) => probs.push(("capacity".into(), e)) }
            tracker().set_enabled(true);
        }
    }
    // teardown -- with `leftovers` events still buffered
    if complete {
        // something left half-done (after all the checks above): a reserved slot nobody resolves, a send whose task was cancelled while its setter was suspended
        match cfg.open_at_teardown {
            1 => { if ch.reserve().is_some() { acc.count("teardowns_with_a_reserved_slot_neither_sent_nor_cancelled", 1) } }
            2 => {
                let mut f = ch.send_with_async(0x7FFF, crate::chan::Gate::new(false));
                if f.poll_once(&chan::noop_waker()).is_pending() { acc.count("teardowns_after_a_send_with_async_was_cancelled_while_suspended", 1) }
                drop(f);
            }
            _ => {}
        }
        acc.count("teardowns", 1); if leftovers > 0 { acc.count("teardowns_with_events_still_buffered", 1); acc.count("events_buffered_at_teardown", leftovers as u64) }
        drop(ch);
        for p in tracker().take_problems() { probs.push((classify(&p).into(), format!("at teardown: {p}"))) }
        if cfg.droppy { for a in &accepted { let (c, d) = (tracker().created_of(*a), tracker().drops_of(*a)); if d > c { probs.push(("double_drop".into(), format!("event {a}: {c} instance(s) created, destructor ran {d} times (teardown included)"))) } } }
    }
    acc.count("events_accepted", accepted.len() as u64);
    let v = if probs.is_empty() { None } else {
        let mut sigs: Vec<J> = Vec::new();
        for (a, _) in &probs { let s = J::obj().with("anomaly", J::s(a)).with("kind", J::s(cfg.kind.name())); if !sigs.iter().any(|x| x.to_string() == s.to_string()) { sigs.push(s) } }
        Some(J::obj().with("what", J::s(probs.iter().map(|p| p.1.clone()).take(5).collect::<Vec<_>>().join("; "))).with("sigs", J::Arr(sigs)).with("config", cfg.json())
            .with("strategy", J::s(rc.strategy.describe())).with("outcome", rep.outcome_json()))
    };
    (v, rep.sched_hash, false)
}

pub fn run(args: &Args, acc: &mut Acc) { run_loop(args, acc, single) }

fn single(args: &Args, acc: &mut Acc, seed: u64, verbose: bool) {
    let mut rng = Rng::new(seed);
    let cfg = draw_cfg(&mut rng, args.only.as_deref(), args.lane);
    let nthreads = cfg.streams + cfg.entries.len() + cfg.dropper as usize + cfg.churn as usize;
    let mut rc = match args.lane {
        Lane::Ser => RunCfg::ser(seed, draw_strategy(&mut rng, nthreads, PAUSE_SITES, 300)),
        Lane::Free => RunCfg::free(seed, rng.below(3) as u8),
    };
    rc.trace = verbose && args.get("trace").is_some();
    let (violation, hash, inconclusive) = one_run(&cfg, &rc, acc);
    acc.count(&format!("runs[{}]", cfg.kind.name()), 1);
    if inconclusive { return }
    acc.nontrivial(mix(hash, cfg.kind as u64 * 131 + cfg.n as u64 * 17 + cfg.m as u64 + ((cfg.per_prod as u64) << 20) + ((cfg.keep_max as u64) << 40) + cfg.droppy as u64));
    acc.sample(3, || J::obj().with("config", cfg.json()).with("strategy", J::s(rc.strategy.describe())));
    if let Some(v) = violation { file_violation(args, acc, seed, verbose, v) }
}
