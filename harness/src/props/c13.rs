//! C13 -- pool allocator: a slot has at most one owner; exhaustion and reuse are exact; id <-> reference is a bijection.
//!
//! Online monitor: an ownership table (one atomic per slot) -- `0 -> me` must succeed right after a successful allocation, the
//! owner clears its entry *before* deallocating (so the shadow is never ahead of the truth), and an owner tag written into
//! the slot must be unchanged at deallocation. Offline: short concurrent histories are checked for linearizability against
//! an id-pool model ("None" only if all POOL_SIZE slots were outstanding at some instant of the call).

use crate::common::{draw_strategy, file_violation, run_loop, Acc, Args};
use crate::drive::stamp;
use crate::json::J;
use crate::lin::{self, Ev, POp, Pool, Verdict};
use crate::payload::{DTok, Payload, Tok, Tok24};
use crate::sched::{self, mix, Body, Lane, Outcome, Rng, RunCfg};
use reactive_mutiny::prelude::advanced::{AllocatorAtomicArray, AllocatorFullSyncArray, BoundedOgreAllocator};
use reactive_mutiny::verif as rv;
use std::sync::{atomic::{AtomicU32, AtomicU64, Ordering::SeqCst}, Arc, Mutex};

pub trait PoolA: Send + Sync {
    fn n(&self) -> u32;
    /// (address of the slot, id)
    fn alloc(&self, with_setter: bool, tag: u64) -> Option<(usize, u32)>;
    fn dealloc(&self, id: u32, by_ref: bool);
    fn read_tag(&self, id: u32) -> u64;
    fn addr_of(&self, id: u32) -> usize;
    fn id_of(&self, addr: usize) -> u32;
    fn slot_size(&self) -> usize;
}
struct P<T: Payload, A: BoundedOgreAllocator<T> + Send + Sync, const N: usize>(A, std::marker::PhantomData<T>);
impl<T: Payload, A: BoundedOgreAllocator<T> + Send + Sync, const N: usize> PoolA for P<T, A, N> {
    fn n(&self) -> u32 { N as u32 }
    fn alloc(&self, with_setter: bool, tag: u64) -> Option<(usize, u32)> {
        if with_setter { self.0.alloc_with(|s| unsafe { std::ptr::write(s, T::make(tag)) }).map(|(r, id)| (r as *mut T as usize, id)) }
        else { self.0.alloc_ref().map(|(r, id)| { unsafe { std::ptr::write(r, T::make(tag)) }; (r as *mut T as usize, id) }) }
    }
    fn dealloc(&self, id: u32, by_ref: bool) { if by_ref { let r: &T = self.0.ref_from_id(id); self.0.dealloc_ref(r) } else { self.0.dealloc_id(id) } }
    fn read_tag(&self, id: u32) -> u64 { let t: &T = self.0.ref_from_id(id); if t.valid() { t.id() } else { u64::MAX } }
    fn addr_of(&self, id: u32) -> usize { self.0.ref_from_id(id) as *mut T as usize }
    fn id_of(&self, addr: usize) -> u32 { self.0.id_from_ref(unsafe { &*(addr as *const T) }) }
    fn slot_size(&self) -> usize { std::mem::size_of::<T>() }
}
fn mk<T: Payload, A: BoundedOgreAllocator<T> + Send + Sync + 'static, const N: usize>() -> Arc<dyn PoolA> { Arc::new(P::<T, A, N>(BoundedOgreAllocator::new(), std::marker::PhantomData)) }

pub use crate::drive::during_unwind;

pub fn make_pool(ring: &str, n: usize, origin: Option<u32>) -> Arc<dyn PoolA> { make_pool_of(ring, n, origin, false) }
/// `droppy`: the pooled values have a destructor (which the deallocation runs)
pub fn make_pool_of(ring: &str, n: usize, origin: Option<u32>, droppy: bool) -> Arc<dyn PoolA> {
    rv::set_sequence_origin(origin);
    let p: Arc<dyn PoolA> = match (ring, n, droppy) {
        ("atomic", 2, false) => mk::<Tok, AllocatorAtomicArray<Tok, 2>, 2>(),
        ("atomic", 4, false) => mk::<Tok, AllocatorAtomicArray<Tok, 4>, 4>(),
        ("atomic", 8, false) => mk::<Tok, AllocatorAtomicArray<Tok, 8>, 8>(),
        ("full_sync", 2, false) => mk::<Tok, AllocatorFullSyncArray<Tok, 2>, 2>(),
        ("full_sync", 4, false) => mk::<Tok, AllocatorFullSyncArray<Tok, 4>, 4>(),
        ("full_sync", 8, false) => mk::<Tok, AllocatorFullSyncArray<Tok, 8>, 8>(),
        ("atomic", 2, true) => mk::<DTok, AllocatorAtomicArray<DTok, 2>, 2>(),
        ("atomic", 4, true) => mk::<DTok, AllocatorAtomicArray<DTok, 4>, 4>(),
        ("atomic", 8, true) => mk::<DTok, AllocatorAtomicArray<DTok, 8>, 8>(),
        ("full_sync", 2, true) => mk::<DTok, AllocatorFullSyncArray<DTok, 2>, 2>(),
        ("full_sync", 4, true) => mk::<DTok, AllocatorFullSyncArray<DTok, 4>, 4>(),
        ("full_sync", 8, true) => mk::<DTok, AllocatorFullSyncArray<DTok, 8>, 8>(),
        _ => panic!("no such pool"),
    };
    rv::set_sequence_origin(None);
    p
}
/// pools of 24-byte values (a slot size that is not a power of two: id <-> reference conversions must divide, not shift)
pub fn make_pool_24(ring: &str, n: usize, origin: Option<u32>) -> Arc<dyn PoolA> {
    rv::set_sequence_origin(origin);
    let p: Arc<dyn PoolA> = match (ring, n) {
        ("atomic", 2) => mk::<Tok24, AllocatorAtomicArray<Tok24, 2>, 2>(),
        ("atomic", 4) => mk::<Tok24, AllocatorAtomicArray<Tok24, 4>, 4>(),
        ("atomic", 8) => mk::<Tok24, AllocatorAtomicArray<Tok24, 8>, 8>(),
        ("full_sync", 2) => mk::<Tok24, AllocatorFullSyncArray<Tok24, 2>, 2>(),
        ("full_sync", 4) => mk::<Tok24, AllocatorFullSyncArray<Tok24, 4>, 4>(),
        ("full_sync", 8) => mk::<Tok24, AllocatorFullSyncArray<Tok24, 8>, 8>(),
        _ => panic!("no such pool"),
    };
    rv::set_sequence_origin(None);
    p
}

#[derive(Clone, Copy, Debug, PartialEq, Eq)]
pub enum Step { Alloc { with: bool, uw: bool }, DeallocOldest { by_ref: bool, uw: bool }, DeallocNewest { by_ref: bool, uw: bool }, AllocUntilNone, DeallocAll }

#[derive(Clone, Debug)]
pub struct Cfg { pub ring: &'static str, pub n: usize, pub origin: Option<u32>, pub scripts: Vec<Vec<Step>>, pub long: u32,
    /// the pooled values have a destructor
    pub droppy: bool,
    /// the pooled values are 24 bytes long (not a power of two)
    pub wide: bool,
    /// some operations (`uw` in the scripts; 1 in 8 of the long workload's) are issued from a destructor that runs while the thread unwinds from a panic
    pub unwinding: bool }
impl Cfg {
    pub fn json(&self) -> J {
        J::obj().with("free_list", J::s(self.ring)).with("POOL_SIZE", J::i(self.n as i64)).with("sequence_origin", self.origin.map(|o| J::i(o as i64)).unwrap_or(J::Null))
            .with("scripts", J::Arr(self.scripts.iter().map(|s| J::s(format!("{:?}", s))).collect())).with("long_ops_per_thread", J::i(self.long as i64)).with("values_with_destructor", J::Bool(self.droppy)).with("values_of_24_bytes", J::Bool(self.wide)).with("some_operations_issued_while_the_thread_unwinds_from_a_panic", J::Bool(self.unwinding))
    }
}

pub const PAUSE_SITES: &[u32] = &[rv::ALLOC_AFTER_DEQUEUE, rv::DEALLOC_AFTER_DROP, rv::AM_CONSUME_AFTER_RESERVE, rv::AM_CONSUME_AFTER_READ, rv::AM_RELEASE_AFTER, rv::AM_LEAK_AFTER_RESERVE,
    rv::AM_PUBLISH_BEFORE, rv::AM_PUBLISH_AFTER, rv::AM_CONSUME_EMPTY_BEFORE_RECEDE, rv::FS_CONSUME_LOCKED, rv::FS_CONSUME_AFTER_READ, rv::FS_LEAK_LOCKED, rv::FS_PUBLISH_BEFORE];

fn draw_origin(rng: &mut Rng, n: usize) -> Option<u32> {
    match rng.below(4) { 0 => None, 1 => Some(0u32.wrapping_sub(rng.below(3 * n as u64 + 1) as u32)), 2 => Some(rng.below(2 * n as u64 + 2) as u32), _ => Some(rng.next() as u32) }
}

pub fn draw_cfg(rng: &mut Rng, only: Option<&str>, lane: Lane, long: bool) -> Cfg {
    let rings: Vec<&'static str> = ["atomic", "full_sync"].into_iter().filter(|r| only.map(|o| o == *r).unwrap_or(true)).collect();
    let ring = *rng.pick(&rings);
    let n = *rng.pick(&[2usize, 4, 8]);
    let nthreads = if long { 2 + rng.below(7) as usize } else { 2 + rng.below(3) as usize };
    let mut scripts = Vec::new();
    let droppy = rng.chance(1, 3);
    let wide = !droppy && rng.chance(1, 3);
    let unwinding = rng.chance(1, 4);
    let uw = |rng: &mut Rng| unwinding && rng.chance(1, 3);
    for _ in 0..nthreads {
        let mut s = Vec::new();
        if !long {
            if rng.chance(1, 5) { s.push(Step::AllocUntilNone); s.push(Step::DeallocAll); if rng.chance(1, 2) { s.push(Step::AllocUntilNone) } }
            else { for _ in 0..2 + rng.below(6) { s.push(match rng.below(10) { 0..=5 => Step::Alloc { with: rng.chance(1, 2), uw: uw(rng) }, 6..=7 => Step::DeallocOldest { by_ref: rng.chance(1, 2), uw: uw(rng) }, _ => Step::DeallocNewest { by_ref: rng.chance(1, 2), uw: uw(rng) } }) } }
        }
        scripts.push(s);
    }
    Cfg { ring, n, origin: draw_origin(rng, n), scripts, droppy, wide, unwinding, long: if !long { 0 } else if lane == Lane::Ser { 50 + rng.below(300) as u32 } else { 20_000 + rng.below(80_000) as u32 } }
}

struct Mon { owners: Vec<AtomicU32>, problems: Mutex<Vec<(String, String)>>, allocs: AtomicU64, nones: AtomicU64, base: usize }
impl Mon {
    fn problem(&self, a: &str, s: String) { let mut p = self.problems.lock().unwrap(); if p.len() < 12 { p.push((a.to_string(), s)) } }
    /// right after a successful allocation
    fn acquired(&self, pool: &dyn PoolA, me: u32, addr: usize, id: u32) -> bool {
        self.allocs.fetch_add(1, SeqCst);
        if id >= pool.n() { self.problem("bad_id", format!("allocation returned id {id} >= POOL_SIZE {}", pool.n())); return false }
        if addr != self.base + id as usize * pool.slot_size() { self.problem("bijection", format!("allocation returned id {id} with a reference at offset {} (expected {})", addr.wrapping_sub(self.base), id as usize * pool.slot_size())) }
        if pool.addr_of(id) != addr || pool.id_of(addr) != id { self.problem("bijection", format!("id {id}: ref_from_id / id_from_ref disagree with what the allocation returned")) }
        if let Err(cur) = self.owners[id as usize].compare_exchange(0, me, SeqCst, SeqCst) {
            self.problem("double_allocation", format!("slot {id} was handed to thread {} while thread {} still owns it", me - 1, cur - 1));
            return false;
        }
        true
    }
    /// right before the deallocation
    fn releasing(&self, pool: &dyn PoolA, me: u32, id: u32, tag: u64) {
        let t = pool.read_tag(id);
        if t != tag { self.problem("overwritten", format!("slot {id} owned by thread {} no longer holds its owner's tag ({tag:#x}), it reads {t:#x}", me - 1)) }
        self.owners[id as usize].store(0, SeqCst);
    }
}

type Hist = Arc<Mutex<Vec<Ev<POp>>>>;

fn body(pool: Arc<dyn PoolA>, mon: Arc<Mon>, script: Vec<Step>, long: u32, tid: u32, seed: u64, hist: Hist, unwinding: bool) -> Body {
    Box::new(move || {
        let me = tid + 1;
        let mut local: Vec<Ev<POp>> = Vec::new();
        let mut held: Vec<(u32, u64)> = Vec::new();
        let mut k = 0u64;
        let record = long == 0;
        let alloc = |with: bool, uw: bool, held: &mut Vec<(u32, u64)>, local: &mut Vec<Ev<POp>>, k: &mut u64| -> bool {
            *k += 1; let tag = ((me as u64) << 32) | *k;
            let c = stamp(); let r = if uw { during_unwind(|| pool.alloc(with, tag)) } else { pool.alloc(with, tag) }; let rt = stamp();
            match r {
                Some((addr, id)) => { if mon.acquired(&*pool, me, addr, id) { held.push((id, tag)) } if record { local.push(Ev { thread: tid, call: c, ret: rt, op: POp::Alloc(id) }) } sched::op_done(); true }
                None => { mon.nones.fetch_add(1, SeqCst); if record { local.push(Ev { thread: tid, call: c, ret: rt, op: POp::AllocNone { slack: 0 } }) } sched::op_done(); false }
            }
        };
        let dealloc = |idx: usize, by_ref: bool, uw: bool, held: &mut Vec<(u32, u64)>, local: &mut Vec<Ev<POp>>| {
            let (id, tag) = held.remove(idx);
            mon.releasing(&*pool, me, id, tag);
            let c = stamp(); if uw { during_unwind(|| pool.dealloc(id, by_ref)) } else { pool.dealloc(id, by_ref) } let rt = stamp();
            if record { local.push(Ev { thread: tid, call: c, ret: rt, op: POp::Dealloc(id) }) }
            sched::op_done();
        };
        for s in script {
            match s {
                Step::Alloc { with, uw } => { alloc(with, uw, &mut held, &mut local, &mut k); }
                Step::DeallocOldest { by_ref, uw } => if !held.is_empty() { dealloc(0, by_ref, uw, &mut held, &mut local) },
                Step::DeallocNewest { by_ref, uw } => if !held.is_empty() { let i = held.len() - 1; dealloc(i, by_ref, uw, &mut held, &mut local) },
                Step::AllocUntilNone => { let mut g = 0; while alloc(g % 2 == 0, false, &mut held, &mut local, &mut k) && g < pool.n() + 1 { g += 1 } }   // (bounded: the whole history must stay within the WGL checker's 128 operations)
                Step::DeallocAll => while !held.is_empty() { dealloc(0, false, false, &mut held, &mut local) },
            }
        }
        if long > 0 {
            let mut rng = Rng::new(seed ^ (tid as u64) << 40);
            for _ in 0..long {
                let want_alloc = held.is_empty() || (held.len() < 3 && rng.chance(1, 2));
                let uw = unwinding && rng.chance(1, 8);
                if want_alloc { if !alloc(rng.chance(1, 2), uw, &mut held, &mut local, &mut k) { sched::spin() } }
                else { let i = rng.below(held.len() as u64) as usize; dealloc(i, rng.chance(1, 2), uw, &mut held, &mut local) }
            }
        }
        while !held.is_empty() { dealloc(0, false, false, &mut held, &mut local) }
        hist.lock().unwrap().extend(local);
    })
}

pub fn one_run(cfg: &Cfg, rc: &RunCfg, acc: &mut Acc) -> (Option<J>, u64, bool) {
    let pool = if cfg.wide { acc.count("runs_with_24_byte_values", 1); make_pool_24(cfg.ring, cfg.n, cfg.origin) } else { make_pool_of(cfg.ring, cfg.n, cfg.origin, cfg.droppy) };
    if cfg.droppy { crate::payload::tracker().reset(0); acc.count("runs_with_values_that_have_a_destructor", 1) }
    if cfg.unwinding { acc.count("runs_with_operations_issued_while_the_thread_unwinds_from_a_panic", 1) }
    let mon = Arc::new(Mon { owners: (0..cfg.n).map(|_| AtomicU32::new(0)).collect(), problems: Mutex::new(Vec::new()), allocs: AtomicU64::new(0), nones: AtomicU64::new(0), base: pool.addr_of(0) });
    let hist: Hist = Arc::new(Mutex::new(Vec::new()));
    let bodies: Vec<Body> = cfg.scripts.iter().enumerate().map(|(t, s)| body(pool.clone(), mon.clone(), s.clone(), cfg.long, t as u32, rc.seed, hist.clone(), cfg.unwinding)).collect();
    let rep = sched::run(rc, bodies);
    acc.account(&rep);
    if rep.inconclusive() { std::mem::forget(pool); return (None, rep.sched_hash, true) }
    let mut probs: Vec<(String, String)> = mon.problems.lock().unwrap().clone();
    for (t, p) in &rep.panics { probs.push(("panic".into(), format!("thread t{t} panicked: {p}"))) }
    // values with a destructor: it ran on storage that holds no value, or twice on the same value
    if cfg.droppy { for p in crate::payload::tracker().take_problems() { probs.push(("destructor".into(), p)) } }
    if let Outcome::Stall { .. } = rep.outcome { probs.push(("stall".into(), format!("run stalled: {}", rep.outcome_json().to_string()))) }
    let mut h = hist.lock().unwrap().clone();
    h.sort_by_key(|e| e.call);
    acc.count("allocations", mon.allocs.load(SeqCst)); acc.count("answers_none", mon.nones.load(SeqCst));
    let mut hh = cfg.n as u64 ^ rep.sched_hash;
    if probs.is_empty() && rep.outcome == Outcome::Done {
        if !h.is_empty() {
            hh = cfg.n as u64;
            for e in h.iter() { hh = mix(hh, (e.thread as u64) << 40 ^ match &e.op { POp::Alloc(i) => *i as u64, POp::AllocNone { .. } => 100, POp::Dealloc(i) => 200 + *i as u64 }) }
            match lin::check(Pool { out: 0, cap: cfg.n as u32 }, &h, 1_000_000) {
                Verdict::Linearizable { states } => { acc.count("wgl_states", states); acc.count("histories_linearizable", 1) }
                Verdict::Budget { .. } => { acc.count("histories_checker_budget_exhausted(inconclusive)", 1); acc.inconclusive += 1 }
                Verdict::NotLinearizable { .. } => {
                    // causal analysis: is the only unexplainable thing a "None" given while another thread's empty-handed allocation attempt was in progress?
                    let mut h2 = h.clone();
                    for i in 0..h2.len() {
                        if let POp::AllocNone { .. } = h2[i].op {
                            let (c, r, t) = (h2[i].call, h2[i].ret, h2[i].thread);
                            let ex = h.iter().any(|o| o.thread != t && matches!(o.op, POp::AllocNone { .. }) && o.call < r && c < o.ret);
                            h2[i].op = POp::AllocNone { slack: if ex { 1000 } else { 0 } };
                        }
                    }
                    if matches!(lin::check(Pool { out: 0, cap: cfg.n as u32 }, &h2, 1_000_000), Verdict::Linearizable { .. }) {
                        probs.push(("spurious_none_during_concurrent_empty_alloc".into(), format!("an allocation answered None although fewer than POOL_SIZE = {} slots were outstanding during the whole call (another thread's empty-handed allocation attempt was in progress); otherwise the history of {} operations is explained by an id pool", cfg.n, h.len())));
                    } else {
                        probs.push(("not_linearizable".into(), format!("no sequential id pool of {} slots explains this history of {} allocations / deallocations", cfg.n, h.len())));
                    }
                }
            }
        }
        // afterwards: exactly POOL_SIZE distinct slots can be allocated again, then None
        if probs.is_empty() {
            let mut got = Vec::new();
            for i in 0..cfg.n + 1 { match pool.alloc(i % 2 == 0, 0xABC0 + i as u64) { Some((_, id)) => got.push(id), None => break } }
            let mut d = got.clone(); d.sort(); d.dedup();
            if got.len() != cfg.n || d.len() != cfg.n { probs.push(("reuse".into(), format!("after every slot was deallocated, {} allocation(s) succeeded ({} distinct ids), POOL_SIZE is {}", got.len(), d.len(), cfg.n))) }
            for id in got { pool.dealloc(id, false) }
            acc.count("exhaust_and_refill_probes", 1);
        }
    }
    let v = if probs.is_empty() { None } else {
        let mut sigs: Vec<J> = Vec::new();
        for (a, _) in &probs { let s = J::obj().with("anomaly", J::s(a)).with("free_list", J::s(cfg.ring)); if !sigs.iter().any(|x| x.to_string() == s.to_string()) { sigs.push(s) } }
        Some(J::obj().with("what", J::s(probs.iter().map(|p| p.1.clone()).take(4).collect::<Vec<_>>().join("; "))).with("sigs", J::Arr(sigs)).with("config", cfg.json())
            .with("strategy", J::s(rc.strategy.describe())).with("outcome", rep.outcome_json()).with("history", J::Arr(h.iter().take(80).map(lin::ev_json).collect())))
    };
    if acc.samples.len() < 2 && h.len() >= 5 { acc.samples.push(J::obj().with("config", cfg.json()).with("history", J::Arr(h.iter().map(lin::ev_json).collect()))) }
    (v, hh, false)
}

pub fn run(args: &Args, acc: &mut Acc) { run_loop(args, acc, single) }

fn single(args: &Args, acc: &mut Acc, seed: u64, verbose: bool) {
    let mut rng = Rng::new(seed);
    let long = args.get("workload") == Some("long");
    let cfg = draw_cfg(&mut rng, args.only.as_deref(), args.lane, long);
    let mut rc = match args.lane {
        Lane::Ser => RunCfg::ser(seed, draw_strategy(&mut rng, cfg.scripts.len(), PAUSE_SITES, 150)),
        Lane::Free => RunCfg::free(seed, rng.below(3) as u8),
    };
    if long && args.lane == Lane::Ser { rc.max_steps = 5_000_000 }
    rc.trace = verbose && args.get("trace").is_some();
    let (violation, hash, inconclusive) = one_run(&cfg, &rc, acc);
    acc.count(&format!("runs[{}{}]", cfg.ring, if long { ",long" } else { "" }), 1);
    if cfg.origin.map(|o| o > u32::MAX - 64).unwrap_or(false) { acc.count("runs_starting_just_below_the_32bit_wrap", 1) }
    if inconclusive { return }
    acc.nontrivial(mix(hash, cfg.ring.len() as u64));
    if let Some(v) = violation { file_violation(args, acc, seed, verbose, v) }
}
