pub mod c04;
