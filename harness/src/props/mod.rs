pub mod c01;
pub mod c02;
pub mod c03;
pub mod c04;
pub mod c16;
pub mod c20;
pub mod c13;
pub mod c14;
