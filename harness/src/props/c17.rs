//! C17 -- listener churn during sends never makes another listener miss or repeat events.
//!
//! 2-3 steady listeners (polling threads) exist throughout; 1-2 producers send; a churn thread creates and drops further
//! listeners (polling them a little in between). Oracles: every steady listener yields every accepted event exactly once, in
//! each producer's order; a churned listener yields, per producer, one contiguous run of that producer's accepted events
//! without repeats; afterwards (pooled kinds) the emptied channel accepts BUFFER_SIZE events again.
//! In some runs there are two churn threads (so that a listener can be created while another one is still being dropped) and the churned
//! listeners poll until they find nothing before they are dropped: such a listener must have yielded every event whose send started after its
//! creation returned and returned before that final poll started.
//! Every anomaly is attributed causally: did the affected event's send overlap a create-listener operation, or a drop-listener operation up to
//! the point where the live-listener list had been rewritten (whatever a drop does after that -- nothing on the unchanged tree -- concerns a
//! listener that is no longer registered and must not disturb anybody)?

use crate::chan::{self, Kind};
use crate::common::{draw_strategy, file_violation, run_loop, Acc, Args};
use crate::drive::{entries_for, polling_consumer_body, producer_body, stamp, ConsLog, Entry, Hold, OnExit, ProdLog};
use crate::json::J;
use crate::sched::{self, mix, Body, Lane, Outcome, Rng, RunCfg};
use reactive_mutiny::verif as rv;
use std::collections::{HashMap, HashSet};
use std::sync::{atomic::{AtomicU32, Ordering::SeqCst}, Arc, Mutex};
use std::task::Poll;

#[derive(Clone, Debug)]
pub struct Cfg { pub kind: Kind, pub n: usize, pub m: usize, pub steady: usize, pub entries: Vec<Entry>, pub per_prod: u32, pub churns: u32, pub churn_polls: u32, pub hold: Hold, pub churners: usize, pub drain: bool, pub handover: bool }
impl Cfg {
    pub fn json(&self) -> J {
        J::obj().with("kind", J::s(self.kind.name())).with("N", J::i(self.n as i64)).with("M", J::i(self.m as i64)).with("steady_listeners", J::i(self.steady as i64))
            .with("producers", J::Arr(self.entries.iter().map(|e| J::s(e.name())).collect())).with("events_per_producer", J::i(self.per_prod as i64))
            .with("listeners_created_and_dropped", J::i(self.churns as i64)).with("polls_per_churned_listener", J::i(self.churn_polls as i64)).with("churn_threads", J::i(self.churners as i64)).with("churned_listeners_poll_until_empty_before_the_drop", J::Bool(self.drain)).with("hold", J::s(format!("{:?}", self.hold)))
            .with("handover_mode", J::Bool(self.handover))
    }
}

pub const PAUSE_SITES: &[u32] = &[rv::SM_SYNC_LOCKED, rv::SM_SYNC_EACH_ENTRY, rv::SM_SYNC_EACH_SENTINEL, rv::SM_CREATE_AFTER_COUNTERS, rv::SM_CREATE_AFTER_ID, rv::SM_CREATE_AFTER_FLAG,
    rv::SM_DROPPED_AFTER_WAKER, rv::SM_DROPPED_AFTER_COUNTERS, rv::SM_DROPPED_AFTER_VACANT, rv::MULTI_FANOUT_BEFORE_COUNT, rv::MULTI_FANOUT_AFTER_INCREMENT, rv::MULTI_FANOUT_BEFORE_ENTRY,
    rv::MULTI_FANOUT_BEFORE_PUBLISH, rv::MMAP_CREATE_AFTER_SUBSCRIBE, rv::MMAP_CREATE_AFTER_ID, rv::MMAP_SUBSCRIBE_AFTER_TAIL,
    // (inside a consume: a listener's poll -- and whatever a drop does with the listener's queue, e.g. discarding what was left unconsumed)
    rv::AM_CONSUME_AFTER_RESERVE, rv::AM_CONSUME_AFTER_READ, rv::FS_CONSUME_LOCKED, rv::FS_CONSUME_AFTER_READ, rv::MULTI_XB_CONSUME_ENTER];

/// what the drop of a listener goes through (streams manager, the listener's own queue)
pub const DROP_SITES: &[u32] = &[rv::SM_DROPPED_AFTER_WAKER, rv::SM_DROPPED_AFTER_COUNTERS, rv::SM_DROPPED_AFTER_VACANT, rv::SM_SYNC_LOCKED, rv::SM_SYNC_EACH_ENTRY, rv::SM_SYNC_EACH_SENTINEL,
    rv::SYNC_UNLOCK, rv::AM_CONSUME_AFTER_RESERVE, rv::AM_CONSUME_AFTER_RESERVE, rv::AM_CONSUME_AFTER_READ, rv::FS_CONSUME_LOCKED, rv::FS_CONSUME_LOCKED, rv::FS_CONSUME_AFTER_READ,
    rv::MULTI_XB_CONSUME_ENTER, rv::MULTI_XB_CONSUME_ENTER];

pub fn draw_cfg(rng: &mut Rng, only: Option<&str>, lane: Lane) -> Cfg {
    let kinds: Vec<Kind> = chan::MULTI_KINDS.iter().copied().filter(|k| only.map(|o| k.name() == o).unwrap_or(true)).collect();
    let kind = *rng.pick(&kinds);
    let cfgs: Vec<(usize, usize)> = chan::cfgs_for(kind, false).into_iter().filter(|c| c.1 >= 4 && (c.0 == 0 || c.0 >= 4)).collect();
    let (mut n, mut m) = *rng.pick(&cfgs);
    if n == 4 && rng.chance(1, 2) { n = 16; m = 4 }      // (room for more events: more churn per run)
    let steady = 2 + rng.below((m - 2).min(2) as u64) as usize;
    let mut nprod = 1 + rng.below(2) as usize;
    let mut per_prod = 2 + rng.below(3) as u32;
    if lane == Lane::Free && (kind.is_pooled() || kind == Kind::MultiMmap) { per_prod = 50 + rng.below(400) as u32 }
    if kind.never_rejects() && n > 0 { while per_prod as usize * nprod > n { if per_prod > 1 { per_prod -= 1 } else { nprod -= 1 } } }
    let handover = steady + 2 <= m && rng.chance(1, 3);
    if handover && n > 0 && n <= 8 { nprod = 1; per_prod = 1 + rng.below(2) as u32 }      // (room for the events the churn threads send themselves)
    let mut es = entries_for(kind); es.retain(|e| *e != Entry::SendAsyncSuspended);
    let entries: Vec<Entry> = (0..nprod).map(|_| *rng.pick(&es)).collect();
    let mut churners = if steady + 2 <= m && rng.chance(1, 2) { 2 } else { 1 };
    let mut drain = rng.chance(1, 2);
    // hand-over mode: two churn threads whose listeners send events themselves right after their creation returned (sends that lie within the listener's lifetime
    // for sure) and poll until empty before the drop; the first thread's drops can be held back at any of their steps (marked region, targeted pause) while the second
    // thread goes through drop / create cycles -- so that a listener is created on the stream id that a drop still in progress has just given back
    if handover { churners = 2; drain = true }
    Cfg { kind, n, m, steady, entries, per_prod, handover, churns: if handover { 2 } else { 1 } + rng.below(if lane == Lane::Free { 12 } else { 3 }) as u32, churn_polls: if handover { rng.below(2) } else { rng.below(4) } as u32, hold: Hold::Release, churners, drain }
}

#[derive(Default)]
struct ChurnLog {
    /// whole create / drop operations (call, return)
    spans: Mutex<Vec<(u64, u64)>>,
    /// the part of each operation that can legitimately interfere with a concurrent fan-out: a whole create; a drop up to the end of the list rewrite
    windows: Mutex<Vec<(u64, u64)>>,
    listeners: Mutex<Vec<Vec<u64>>>,
    /// per churned listener that polled until empty: (creation returned, final poll-until-empty started, index into `listeners`)
    lifetimes: Mutex<Vec<(u64, u64, usize)>>,
}
fn is_sm_site(s: u32) -> bool { matches!(s, rv::SM_DROPPED_AFTER_WAKER | rv::SM_DROPPED_AFTER_COUNTERS | rv::SM_DROPPED_AFTER_VACANT | rv::SM_SYNC_LOCKED | rv::SM_SYNC_EACH_ENTRY | rv::SM_SYNC_EACH_SENTINEL) }

pub fn one_run(cfg: &Cfg, rc: &RunCfg, acc: &mut Acc) -> (Option<J>, u64, bool) {
    let ch = chan::make(cfg.kind, cfg.n, cfg.m, false).expect("instantiation");
    let mut strms: Vec<_> = (0..cfg.steady).map(|_| ch.create_stream()).collect();
    if rc.lane == Lane::Free { for s in strms.iter_mut() { crate::drive::preregister_noop(s) } }
    let clogs: Vec<Arc<ConsLog>> = (0..cfg.steady).map(|_| Arc::new(ConsLog::default())).collect();
    // (the producers' logs, then -- hand-over mode -- one per churn thread for the events it sends itself)
    let plogs: Vec<Arc<ProdLog>> = (0..cfg.entries.len() + if cfg.handover { cfg.churners } else { 0 }).map(|_| Arc::new(ProdLog::default())).collect();
    let nprod = cfg.entries.len();
    // events the churn threads may send themselves: the Arc kinds wait when a listener's queue is full and the pooled kinds panic, so the total stays within the buffer
    let self_send_budget = Arc::new(AtomicU32::new(if !cfg.handover { 0 } else if cfg.n == 0 { 8 } else { (cfg.n as u32).saturating_sub(cfg.per_prod * nprod as u32 + 1) }));
    let churn = Arc::new(ChurnLog::default());
    let done = Arc::new(AtomicU32::new(0));
    let n_wait = cfg.entries.len() as u32 + cfg.churners as u32;
    let mut bodies: Vec<Body> = Vec::new();
    for (s, l) in strms.into_iter().zip(clogs.iter()) { let d = done.clone(); bodies.push(polling_consumer_body(s, cfg.hold, l.clone(), Arc::new(move || d.load(SeqCst) == n_wait))) }
    let shift = if cfg.per_prod < 250 { 8 } else { 12 };
    for (p, (e, l)) in cfg.entries.iter().zip(plogs.iter()).enumerate() {
        let ids: Vec<u64> = (0..cfg.per_prod as u64).map(|i| ((p as u64 + 1) << shift) | (i + 1)).collect();
        let inner = producer_body(ch.clone(), *e, ids, if rc.lane == Lane::Free { 3000 } else { 3 }, l.clone());
        let d = done.clone();
        bodies.push(Box::new(move || { let _g = OnExit(Some(move || { d.fetch_add(1, SeqCst); })); inner() }));
    }
    for churner in 0..cfg.churners {
        let (ch, d, churn, cfg2, lane) = (ch.clone(), done.clone(), churn.clone(), cfg.clone(), rc.lane);
        let my_log = if cfg.handover { Some(plogs[nprod + churner].clone()) } else { None };
        let (budget, seed) = (self_send_budget.clone(), rc.seed);
        bodies.push(Box::new(move || {
            let _g = OnExit(Some(move || { d.fetch_add(1, SeqCst); }));
            let _ps = my_log.as_ref().map(crate::drive::panic_stamp);
            let w = chan::noop_waker();
            let mut x = mix(seed, 0xC17 + churner as u64) | 1;
            let mut next = move || { x ^= x << 13; x ^= x >> 7; x ^= x << 17; x >> 20 };
            let mut sent = 0u64;
            for _ in 0..cfg2.churns {
                let t0 = stamp(); let mut s = ch.create_stream(); let t1 = stamp();
                churn.spans.lock().unwrap().push((t0, t1)); churn.windows.lock().unwrap().push((t0, t1));
                sched::op_done();
                if let Some(log) = &my_log {
                    // events of my own, sent while my listener exists: it must yield them (it polls until empty before it goes)
                    for _ in 0..1 + next() % 2 {
                        if budget.fetch_update(SeqCst, SeqCst, |b| b.checked_sub(1)).is_err() { break }
                        sent += 1;
                        crate::drive::send_logged(&*ch, Entry::Send, ((nprod as u64 + churner as u64 + 1) << shift) | sent, log);
                        sched::op_done();
                    }
                    // (a drop held back on another thread goes on now, in some of the runs: what it still does concerns a listener that is no longer registered)
                    if next() % 2 == 0 { sched::resume_paused(300); }
                    if lane == Lane::Free { for _ in 0..next() % 4 { std::thread::yield_now() } } else { for _ in 0..next() % 6 { sched::point() } }
                }
                let mut got = Vec::new();
                if lane == Lane::Free { if let Poll::Ready(Some(it)) = s.poll(&w) { got.push(it.id); drop(it) } }
                for _ in 0..cfg2.churn_polls { if let Poll::Ready(Some(it)) = s.poll(&w) { got.push(it.id); drop(it) } sched::op_done() }
                let mut lifetime = None;
                if cfg2.drain {
                    let td = stamp();
                    let mut polls = 0;
                    loop { polls += 1; match s.poll(&w) { Poll::Ready(Some(it)) => { got.push(it.id); drop(it); sched::op_done() } _ => break } if polls > 100_000 { break } }
                    lifetime = Some((t1, td));
                }
                sched::site_log_start();
                sched::set_mark(true);
                let t2 = stamp(); drop(s); let t3 = stamp();
                sched::set_mark(false);
                let log = sched::site_log_take(); sched::site_log_stop();
                // the drop may interfere with a concurrent fan-out until the live-listener list has been rewritten: up to the first hook site hit after the last
                // streams-manager site of the operation (the whole operation if nothing follows, as on the unchanged tree)
                // (the rewrite ends with the release of the streams lock, whose own site -- SYNC_UNLOCK, hit before the releasing store -- still belongs to it)
                let wend = match log.iter().rposition(|(site, _)| is_sm_site(*site)) {
                    Some(i) => { let j = if log.get(i + 1).map(|x| x.0) == Some(rv::SYNC_UNLOCK) { i + 2 } else { i + 1 }; if j < log.len() { log[j].1 } else { t3 } }
                    None => t3,
                };
                churn.spans.lock().unwrap().push((t2, t3)); churn.windows.lock().unwrap().push((t2, wend));
                let mut ls = churn.listeners.lock().unwrap();
                if let Some((a, b)) = lifetime { churn.lifetimes.lock().unwrap().push((a, b, ls.len())) }
                ls.push(got);
                drop(ls);
                sched::op_done();
            }
        }));
    }
    let rep = sched::run(rc, bodies);
    acc.account(&rep);
    if rc.trace { sched::dump_trace(&rep) }
    if rep.inconclusive() { if acc.notes.len() < 10 { acc.notes.push(format!("inconclusive {:?}: {}", rep.outcome, cfg.json().to_string())) } std::mem::forget(ch); return (None, rep.sched_hash, true) }
    let spans = churn.windows.lock().unwrap().clone();
    { let whole = churn.spans.lock().unwrap(); if whole.iter().zip(spans.iter()).any(|(a, b)| a.1 != b.1) { acc.count("drop_operations_that_went_on_after_the_list_rewrite", 1) } }
    // (id -> (call, return)) of the accepted attempt
    let mut send_span: HashMap<u64, (u64, u64)> = HashMap::new();
    let mut accepted: Vec<u64> = Vec::new();
    for l in &plogs { for c in l.calls.lock().unwrap().iter() { if c.3 { send_span.insert(c.0, (c.1, c.2)); accepted.push(c.0) } } }
    let overlaps_churn = |id: &u64| -> bool { send_span.get(id).map(|(a, b)| spans.iter().any(|(c, d)| a < d && c < b)).unwrap_or(false) };
    let mut sends_overlapping = 0; for a in &accepted { if overlaps_churn(a) { sends_overlapping += 1 } }
    acc.count("sends_overlapping_a_create_or_drop_listener_operation", sends_overlapping);
    // anomalies: (kind of anomaly, explained by churn overlap?, text)
    let mut anomalies: Vec<(String, bool, String)> = Vec::new();
    // a send that panicked never returned: it stays open (its event may or may not have reached some listeners)
    let mut open_ids: HashSet<u64> = HashSet::new();
    for (t, p) in &rep.panics {
        // a sender that finds a listener's queue full (the pooled kinds never have more than BUFFER_SIZE events outstanding, the Arc kinds are kept within it): the queue
        // holds duplicates, which is what C17-D8 produces when the fan-out of this send -- or of an earlier one -- walked the listener list while it was being rewritten
        let mut kind = "panic"; let mut explained = false;
        if let Some(pl) = plogs.iter().find(|pl| pl.tid.load(SeqCst) as usize == *t) {
            let (a, b) = (pl.open_call.load(SeqCst), pl.panicked_at.load(SeqCst));
            if a > 0 {
                open_ids.insert(pl.open_id.load(SeqCst));
                if p.contains("is full of elements") { kind = "sender_panicked_on_a_full_listener_queue"; explained = sends_overlapping > 0 || spans.iter().any(|(c, d)| a < *d && *c < if b > 0 { b } else { u64::MAX }) }
            }
        }
        anomalies.push((kind.into(), explained, format!("thread t{t} panicked: {p}")))
    }
    if let Outcome::Stall { .. } = rep.outcome { anomalies.push(("stall".into(), false, format!("run stalled: {}", rep.outcome_json().to_string()))) }
    let complete = rep.outcome == Outcome::Done;
    let acc_set: HashSet<u64> = accepted.iter().copied().collect();
    // The steady listeners are created first: they own the lowest stream ids, every lower id stays in use for the whole run, so their positions in the live-listener
    // list never change -- each rewrite stores the very same id at the very same position again (creation and removal of the higher ids only touch the entries
    // behind them). The unsynchronised rewrite (C17-D8) therefore cannot reach them in this workload, and on the unchanged tree it never did (0 such anomalies in
    // 10^5 runs): an anomaly of a steady listener is never attributed to the known finding, whatever the affected send overlapped.
    for (li, l) in clogs.iter().enumerate() {
        let ys = l.yields.lock().unwrap();
        let mut seen: HashSet<u64> = HashSet::new();
        let mut last: HashMap<u64, u64> = HashMap::new();
        for (id, valid, _, _) in ys.iter() {
            if !*valid { anomalies.push(("corrupt".into(), false, format!("steady listener {li} yielded a corrupted payload"))) }
            if open_ids.contains(id) { continue }          // (the send of that event panicked half-way: neither accepted nor rejected)
            if !acc_set.contains(id) { anomalies.push(("never_accepted".into(), false, format!("steady listener {li} yielded {id}, which no send reported as accepted"))); continue }
            if !seen.insert(*id) { anomalies.push(("duplicated".into(), false, format!("steady listener {li} yielded event {id} twice{}", if overlaps_churn(id) { " (its send overlapped a create / drop-listener operation)" } else { "" }))) }
            let (p, k) = (id >> shift, id & ((1 << shift) - 1));
            if let Some(prev) = last.get(&p) { if *prev > k { anomalies.push(("reordered".into(), false, format!("steady listener {li} yielded event #{k} of producer {p} after #{prev}"))) } }
            last.insert(p, k);
        }
        if complete { for a in &accepted { if !seen.contains(a) { anomalies.push(("missed".into(), false, format!("steady listener {li} never yielded accepted event {a}{}", if overlaps_churn(a) { " (its send overlapped a create / drop-listener operation)" } else { "" }))) } } }
    }
    // churned listeners: per producer, a contiguous run of that producer's accepted events, no repeats
    for (ci, got) in churn.listeners.lock().unwrap().iter().enumerate() {
        let mut seen: HashSet<u64> = HashSet::new();
        for id in got { if !seen.insert(*id) { anomalies.push(("churned_duplicated".into(), overlaps_churn(id), format!("churned listener #{ci} yielded event {id} twice"))) } if !acc_set.contains(id) && !open_ids.contains(id) && cfg.kind != Kind::MultiMmap { anomalies.push(("never_accepted".into(), false, format!("churned listener #{ci} yielded {id}, never accepted"))) } }
        for (p, l) in plogs.iter().enumerate() {
            let mine: Vec<u64> = l.accepted.lock().unwrap().clone();
            let idx: Vec<usize> = got.iter().filter(|g| (**g >> shift) as usize == p + 1).filter_map(|g| mine.iter().position(|m| m == g)).collect();
            // (explained by churn if any event from the one before the gap -- it may be a leftover published into the previous owner's queue while that
            //  listener was being dropped -- to the one after it was sent while a create / drop operation was in its interfering part)
            for w in idx.windows(2) { if w[1] != w[0] + 1 { let culprit = mine[(w[0] + 1).min(mine.len() - 1)]; let (lo, hi) = (w[0].min(w[1]), w[0].max(w[1]).min(mine.len() - 1)); anomalies.push(("churned_gap".into(), (lo..=hi).any(|i| overlaps_churn(&mine[i])), format!("churned listener #{ci} yielded producer {}'s events with a gap / out of order around event {culprit}", p + 1))) } }
        }
    }
    // a churned listener that polled until empty: every event whose send lies entirely between "creation returned" and "the final polling started"
    if complete {
        let ls = churn.listeners.lock().unwrap();
        for (born, drain_start, li) in churn.lifetimes.lock().unwrap().iter() {
            let got: HashSet<u64> = ls[*li].iter().copied().collect();
            let mut inside = 0u64;
            for a in &accepted {
                let (sa, sb) = send_span[a];
                if sa > *born && sb < *drain_start {
                    inside += 1;
                    if !got.contains(a) { anomalies.push(("churned_missed".into(), overlaps_churn(a), format!("churned listener #{li} (polled until empty before it was dropped) never yielded event {a}, whose send started after the listener's creation had returned and returned before that final polling started"))) }
                }
            }
            acc.count("sends_entirely_within_the_lifetime_of_a_churned_listener_that_polled_until_empty", inside);
        }
    }
    // storage: after everything was consumed and released the pooled kinds accept BUFFER_SIZE events again
    if complete && cfg.kind.is_pooled() && !anomalies.iter().any(|a| a.0 == "panic") {
        match super::c16::probe_capacity_all_ids(&ch) { Ok(_) => acc.count("capacity_probes_ok", 1), Err(e) => anomalies.push(("storage_permanently_occupied".into(), sends_overlapping > 0, e)) }
    }
    acc.count("events_accepted", accepted.len() as u64);
    let v = if anomalies.is_empty() { None } else {
        let mut sigs: Vec<J> = Vec::new();
        for (a, ex, _) in &anomalies { let s = J::obj().with("anomaly", J::s(a)).with("kind", J::s(cfg.kind.name())).with("send_overlapped_a_create_or_drop_listener_operation", J::Bool(*ex)); if !sigs.iter().any(|x| x.to_string() == s.to_string()) { sigs.push(s) } }
        Some(J::obj().with("what", J::s(anomalies.iter().map(|p| p.2.clone()).take(5).collect::<Vec<_>>().join("; "))).with("sigs", J::Arr(sigs)).with("config", cfg.json())
            .with("strategy", J::s(rc.strategy.describe())).with("outcome", rep.outcome_json()).with("accepted", crate::drive::ids_json(&accepted[..accepted.len().min(40)]))
            .with("steady_yields", J::Arr(clogs.iter().map(|l| { let mut v = l.ids(); v.truncate(40); crate::drive::ids_json(&v) }).collect()))
            .with("churned_yields", J::Arr(churn.listeners.lock().unwrap().iter().map(|g| crate::drive::ids_json(&g[..g.len().min(40)])).collect())))
    };
    (v, rep.sched_hash, false)
}

pub fn run(args: &Args, acc: &mut Acc) { run_loop(args, acc, single) }

fn single(args: &Args, acc: &mut Acc, seed: u64, verbose: bool) {
    let mut rng = Rng::new(seed);
    let cfg = draw_cfg(&mut rng, args.only.as_deref(), args.lane);
    let nthreads = cfg.steady + cfg.entries.len() + cfg.churners;
    let mut rc = match args.lane {
        // hand-over mode, 3 runs of 4: the first churn thread is held back at a step of one of its drops
        Lane::Ser if cfg.handover && rng.chance(3, 4) => {
            let mut rc = RunCfg::ser(seed, sched::Strategy::PauseAt { p_pct: *rng.pick(&[20, 50]), tid: cfg.steady + cfg.entries.len(), site: *rng.pick(DROP_SITES), nth: 1 + rng.below(3) as u32, budget: 5000 });
            rc.pause_marked_only = true;
            rc
        }
        Lane::Ser => RunCfg::ser(seed, draw_strategy(&mut rng, nthreads, PAUSE_SITES, 300)),
        Lane::Free => RunCfg::free(seed, rng.below(3) as u8),
    };
    rc.trace = verbose && args.get("trace").is_some();
    let (violation, hash, inconclusive) = one_run(&cfg, &rc, acc);
    acc.count(&format!("runs[{}]", cfg.kind.name()), 1);
    if inconclusive { return }
    acc.nontrivial(mix(hash, cfg.kind as u64 * 131 + cfg.n as u64 * 17 + cfg.m as u64 + ((cfg.per_prod as u64) << 20) + ((cfg.churns as u64) << 40)));
    acc.sample(3, || J::obj().with("config", cfg.json()).with("strategy", J::s(rc.strategy.describe())));
    if let Some(v) = violation { file_violation(args, acc, seed, verbose, v) }
}
