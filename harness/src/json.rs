//! Minimal JSON value + writer (no external crates are available offline beyond what /repo locks)

use std::fmt::Write;

#[derive(Clone, Debug)]
pub enum J {
    Null,
    Bool(bool),
    Int(i64),
    Num(f64),
    Str(String),
    Arr(Vec<J>),
    Obj(Vec<(String, J)>),
}

impl J {
    pub fn obj() -> J { J::Obj(Vec::new()) }
    pub fn arr() -> J { J::Arr(Vec::new()) }
    pub fn s<S: Into<String>>(s: S) -> J { J::Str(s.into()) }
    pub fn i<I: TryInto<i64>>(i: I) -> J { J::Int(i.try_into().unwrap_or(i64::MAX)) }
    pub fn set<S: Into<String>>(&mut self, k: S, v: J) -> &mut Self {
        if let J::Obj(o) = self {
            let k = k.into();
            if let Some(e) = o.iter_mut().find(|(kk, _)| *kk == k) { e.1 = v } else { o.push((k, v)) }
        }
        self
    }
    pub fn with<S: Into<String>>(mut self, k: S, v: J) -> Self { self.set(k, v); self }
    pub fn push(&mut self, v: J) -> &mut Self {
        if let J::Arr(a) = self { a.push(v) }
        self
    }
    pub fn get(&self, k: &str) -> Option<&J> {
        if let J::Obj(o) = self { o.iter().find(|(kk, _)| kk == k).map(|e| &e.1) } else { None }
    }
    pub fn get_mut(&mut self, k: &str) -> Option<&mut J> {
        if let J::Obj(o) = self { o.iter_mut().find(|(kk, _)| kk == k).map(|e| &mut e.1) } else { None }
    }
    /// adds `n` to the integer under `k` (creating it)
    pub fn add(&mut self, k: &str, n: i64) {
        match self.get_mut(k) {
            Some(J::Int(v)) => *v += n,
            _ => { self.set(k, J::Int(n)); }
        }
    }
    pub fn as_i64(&self) -> Option<i64> { if let J::Int(i) = self { Some(*i) } else { None } }
    pub fn as_str(&self) -> Option<&str> { if let J::Str(s) = self { Some(s) } else { None } }
    pub fn len(&self) -> usize { match self { J::Arr(a) => a.len(), J::Obj(o) => o.len(), _ => 0 } }

    pub fn to_string(&self) -> String {
        let mut s = String::new();
        self.write(&mut s);
        s
    }
    fn write(&self, out: &mut String) {
        match self {
            J::Null => out.push_str("null"),
            J::Bool(b) => out.push_str(if *b { "true" } else { "false" }),
            J::Int(i) => { let _ = write!(out, "{}", i); }
            J::Num(f) => { if f.is_finite() { let _ = write!(out, "{}", f); } else { out.push_str("null") } }
            J::Str(s) => {
                out.push('"');
                for c in s.chars() {
                    match c {
                        '"' => out.push_str("\\\""),
                        '\\' => out.push_str("\\\\"),
                        '\n' => out.push_str("\\n"),
                        '\r' => out.push_str("\\r"),
                        '\t' => out.push_str("\\t"),
                        c if (c as u32) < 0x20 => { let _ = write!(out, "\\u{:04x}", c as u32); }
                        c => out.push(c),
                    }
                }
                out.push('"');
            }
            J::Arr(a) => {
                out.push('[');
                for (i, v) in a.iter().enumerate() {
                    if i > 0 { out.push(',') }
                    v.write(out);
                }
                out.push(']');
            }
            J::Obj(o) => {
                out.push('{');
                for (i, (k, v)) in o.iter().enumerate() {
                    if i > 0 { out.push(',') }
                    J::Str(k.clone()).write(out);
                    out.push(':');
                    v.write(out);
                }
                out.push('}');
            }
        }
    }
}

/// A tiny parser, enough to read back our own replay files
pub fn parse(s: &str) -> Result<J, String> {
    let b = s.as_bytes();
    let mut p = 0usize;
    let v = parse_val(b, &mut p)?;
    Ok(v)
}
fn ws(b: &[u8], p: &mut usize) { while *p < b.len() && (b[*p] as char).is_whitespace() { *p += 1 } }
fn parse_val(b: &[u8], p: &mut usize) -> Result<J, String> {
    ws(b, p);
    if *p >= b.len() { return Err("eof".into()) }
    match b[*p] {
        b'{' => {
            *p += 1;
            let mut o = Vec::new();
            loop {
                ws(b, p);
                if b[*p] == b'}' { *p += 1; break }
                let k = match parse_val(b, p)? { J::Str(s) => s, _ => return Err("key".into()) };
                ws(b, p);
                if b[*p] != b':' { return Err("colon".into()) }
                *p += 1;
                let v = parse_val(b, p)?;
                o.push((k, v));
                ws(b, p);
                if b[*p] == b',' { *p += 1 }
            }
            Ok(J::Obj(o))
        }
        b'[' => {
            *p += 1;
            let mut a = Vec::new();
            loop {
                ws(b, p);
                if b[*p] == b']' { *p += 1; break }
                a.push(parse_val(b, p)?);
                ws(b, p);
                if b[*p] == b',' { *p += 1 }
            }
            Ok(J::Arr(a))
        }
        b'"' => {
            *p += 1;
            let mut s = String::new();
            while b[*p] != b'"' {
                if b[*p] == b'\\' {
                    *p += 1;
                    match b[*p] {
                        b'n' => s.push('\n'), b't' => s.push('\t'), b'r' => s.push('\r'),
                        b'u' => { let h = std::str::from_utf8(&b[*p+1..*p+5]).unwrap(); s.push(char::from_u32(u32::from_str_radix(h, 16).unwrap()).unwrap_or('?')); *p += 4 }
                        c => s.push(c as char),
                    }
                    *p += 1;
                } else {
                    // utf-8 passthrough
                    let start = *p;
                    *p += 1;
                    while *p < b.len() && (b[*p] & 0xC0) == 0x80 { *p += 1 }
                    s.push_str(std::str::from_utf8(&b[start..*p]).unwrap_or("?"));
                }
            }
            *p += 1;
            Ok(J::Str(s))
        }
        b't' => { *p += 4; Ok(J::Bool(true)) }
        b'f' => { *p += 5; Ok(J::Bool(false)) }
        b'n' => { *p += 4; Ok(J::Null) }
        _ => {
            let start = *p;
            while *p < b.len() && (b[*p] == b'-' || b[*p] == b'+' || b[*p] == b'.' || b[*p] == b'e' || b[*p] == b'E' || b[*p].is_ascii_digit()) { *p += 1 }
            let t = std::str::from_utf8(&b[start..*p]).unwrap();
            if let Ok(i) = t.parse::<i64>() { Ok(J::Int(i)) } else { t.parse::<f64>().map(J::Num).map_err(|e| format!("num {t}: {e}")) }
        }
    }
}
