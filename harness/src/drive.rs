//! Re-usable thread bodies: a minimal executor driving one stream, and scripted producers

use crate::chan::{noop_waker, Chan, Gate, Item, SendRes, Strm};
use crate::json::J;
use crate::sched::{self, Body, WakeFlag};
use std::sync::{
    atomic::{AtomicBool, AtomicU32, AtomicU64, Ordering::SeqCst},
    Arc, Mutex,
};
use std::task::Poll;

/// one global logical clock for call/return stamps (taken before invoking / after the reply)
pub static CLOCK: AtomicU64 = AtomicU64::new(1);
#[inline] pub fn stamp() -> u64 { CLOCK.fetch_add(1, SeqCst) }
thread_local! {
    /// set by a send whose setter was kept suspended (`SendAsyncGated`): the stamp at which the setter was resumed. For the kinds driven that way the
    /// queue position is taken and the wake-up decided only after the setter completed, so that is when the send "really" starts racing the consumers
    pub static RESUMED_AT: std::cell::Cell<u64> = const { std::cell::Cell::new(0) };
}

#[derive(Clone, Copy, PartialEq, Eq, Debug, Hash)]
pub enum Entry { Send, SendWith, SendAsync, SendAsyncSuspended, Reserve, Derived,
    /// send_with_async whose setter stays suspended until every other thread has finished or parked (SER: `gate_wait`), e.g. until the consumers have drained what was pending and parked
    SendAsyncGated }
impl Entry {
    pub fn name(&self) -> &'static str {
        match self { Entry::Send => "send", Entry::SendWith => "send_with", Entry::SendAsync => "send_with_async", Entry::SendAsyncSuspended => "send_with_async(suspended)",
                     Entry::Reserve => "reserve+try_send_reserved", Entry::Derived => "send_derived", Entry::SendAsyncGated => "send_with_async(suspended until everybody else finished or parked)" }
    }
    pub fn from_name(s: &str) -> Option<Entry> {
        [Entry::Send, Entry::SendWith, Entry::SendAsync, Entry::SendAsyncSuspended, Entry::Reserve, Entry::Derived, Entry::SendAsyncGated].into_iter().find(|e| e.name() == s)
    }
}

/// entry points a channel kind offers
pub fn entries_for(kind: crate::chan::Kind) -> Vec<Entry> {
    let mut v = vec![Entry::Send, Entry::SendWith];
    if kind.has_async_send() { v.push(Entry::SendAsync); v.push(Entry::SendAsyncSuspended) }
    if kind.has_reserve() { v.push(Entry::Reserve) }
    if matches!(kind, crate::chan::Kind::MultiArcAtomic | crate::chan::Kind::MultiArcFullSync | crate::chan::Kind::MultiArcCrossbeam) { v.push(Entry::Derived) }
    v
}

/// Performs one send attempt through `entry`. `Ok` = accepted; `Full` = rejected, nothing happened.
pub fn send_via(ch: &dyn Chan, entry: Entry, id: u64) -> SendRes {
    match entry {
        Entry::Send => ch.send(id),
        Entry::SendWith => ch.send_with(id),
        Entry::SendAsync | Entry::SendAsyncSuspended => {
            let gate = Gate::new(entry == Entry::SendAsync);
            let mut f = ch.send_with_async(id, gate.clone());
            let w = noop_waker();
            let mut polls = 0;
            loop {
                match f.poll_once(&w) {
                    Poll::Ready(r) => break r,
                    Poll::Pending => {
                        polls += 1;
                        // the setter is suspended: let others run for a while, then resume it; afterwards a `Pending` answer means the
                        // channel makes the send wait (a retry loop of its own): somebody else has to run
                        if polls <= 2 { sched::point(); sched::point(); } else { sched::spin() }
                        if polls >= 2 { gate.open() }
                    }
                }
            }
        }
        Entry::SendAsyncGated => {
            let gate = Gate::new(false);
            let mut f = ch.send_with_async(id, gate.clone());
            let w = noop_waker();
            match f.poll_once(&w) {
                Poll::Ready(r) => r,          // (rejected before the setter was awaited, or the kind never awaits)
                Poll::Pending => {
                    // the setter is suspended: everybody else runs until finished or parked (SER); free-running: a pause long enough for a consumer to drain and park
                    if sched::lane() == Some(sched::Lane::Free) { std::thread::sleep(std::time::Duration::from_micros(300)) } else { sched::gate_wait(); }
                    RESUMED_AT.with(|r| r.set(stamp()));
                    gate.open();
                    loop { match f.poll_once(&w) { Poll::Ready(r) => break r, Poll::Pending => sched::spin() } }
                }
            }
        }
        Entry::Reserve => {
            match ch.reserve() {
                None => SendRes::Full,
                Some(r) => {
                    ch.fill(&r, id);
                    sched::point();
                    let mut tries = 0u32;
                    while !ch.try_send_reserved(&r) {
                        tries += 1;
                        sched::spin();
                        if tries > 1_000_000 { panic!("try_send_reserved never succeeded") }
                    }
                    SendRes::Ok
                }
            }
        }
        Entry::Derived => match ch.send_derived(id) { Some(true) => SendRes::Ok, Some(false) => SendRes::Full, None => ch.send(id) },
    }
}

#[derive(Default)]
pub struct ProdLog {
    pub tid:      AtomicU32,
    pub accepted: Mutex<Vec<u64>>,
    pub rejected: Mutex<Vec<u64>>,
    pub done:     AtomicBool,
    /// (id, call stamp, return stamp, accepted?)
    pub calls:    Mutex<Vec<(u64, u64, u64, bool)>>,
    /// call stamp of the send that is in progress (0: none) -- a send that panics never returns
    pub open_call: AtomicU64,
    /// the event id that send is about
    pub open_id: AtomicU64,
    /// sends whose setter was kept suspended and resumed later (`SendAsyncGated`)
    pub resumed: AtomicU32,
    /// stamp taken while the producer thread unwinds (0: it did not panic)
    pub panicked_at: AtomicU64,
    /// every fourth send of this producer is issued from a destructor while its thread unwinds from a panic
    pub some_sends_while_unwinding: AtomicBool,
}
struct PanicStamp(Arc<ProdLog>);
impl Drop for PanicStamp { fn drop(&mut self) { if std::thread::panicking() { self.0.panicked_at.store(stamp(), SeqCst) } } }

/// the guard a thread that sends on its own account (not through `producer_body`) keeps while it runs: stamps the moment its thread unwinds from a panic
pub fn panic_stamp(log: &Arc<ProdLog>) -> impl Drop { log.tid.store(sched::my_tid() as u32, SeqCst); PanicStamp(log.clone()) }
/// one send attempt, recorded like those of `producer_body`
pub fn send_logged(ch: &dyn Chan, entry: Entry, id: u64, log: &ProdLog) -> SendRes {
    let t0 = stamp();
    log.open_id.store(id, SeqCst);
    log.open_call.store(t0, SeqCst);
    let r = send_via(ch, entry, id);
    let t1 = stamp();
    log.open_call.store(0, SeqCst);
    log.calls.lock().unwrap().push((id, t0, t1, r == SendRes::Ok));
    if r == SendRes::Ok { log.accepted.lock().unwrap().push(id) } else { log.rejected.lock().unwrap().push(id) }
    r
}

/// A producer: sends `ids` in order through `entry`; a rejected send is retried up to `retries` times, then given up
pub fn producer_body(ch: Arc<dyn Chan>, entry: Entry, ids: Vec<u64>, retries: u32, log: Arc<ProdLog>) -> Body {
    Box::new(move || {
        log.tid.store(sched::my_tid() as u32, SeqCst);
        let _ps = PanicStamp(log.clone());
        let mut nsend = 0u32;
        for id in ids {
            let mut attempt = 0;
            loop {
                let t0 = stamp();
                log.open_id.store(id, SeqCst);
                log.open_call.store(t0, SeqCst);
                RESUMED_AT.with(|r| r.set(0));
                nsend += 1;
                // ("goodbye" events: when asked, every fourth send is issued from a destructor while the thread unwinds from a panic -- not the suspended
                //  async sends, whose suspension is a scheduling matter of the harness)
                let r = if log.some_sends_while_unwinding.load(SeqCst) && nsend % 4 == 0 && !matches!(entry, Entry::SendAsyncSuspended | Entry::SendAsyncGated) { during_unwind(|| send_via(&*ch, entry, id)) } else { send_via(&*ch, entry, id) };
                let t1 = stamp();
                log.open_call.store(0, SeqCst);
                let resumed = RESUMED_AT.with(|r| r.get());
                if resumed > 0 { log.resumed.fetch_add(1, SeqCst); }
                log.calls.lock().unwrap().push((id, if resumed > 0 { resumed } else { t0 }, t1, r == SendRes::Ok));
                sched::op_done();
                match r {
                    SendRes::Ok => { log.accepted.lock().unwrap().push(id); break }
                    SendRes::Full => {
                        attempt += 1;
                        if attempt > retries { log.rejected.lock().unwrap().push(id); break }
                        sched::spin();
                    }
                }
            }
        }
        log.done.store(true, SeqCst);
    })
}

/// runs `f` the way a failing task runs its clean-up: from a destructor, while the thread unwinds from a panic (raised without the panic hook, caught right here)
pub fn during_unwind<R>(f: impl FnOnce() -> R) -> R {
    struct D<F: FnOnce()>(Option<F>);
    impl<F: FnOnce()> Drop for D<F> { fn drop(&mut self) { if let Some(f) = self.0.take() { f() } } }
    let mut out = None;
    let _ = std::panic::catch_unwind(std::panic::AssertUnwindSafe(|| { let _d = D(Some(|| out = Some(f()))); std::panic::resume_unwind(Box::new("the task failed")) }));
    out.expect("the clean-up ran")
}

/// drops a stream -- normally, or as a failing task does: while the thread unwinds from a panic (raised without the panic hook, caught right here)
pub fn drop_stream<T>(strm: T, while_unwinding: bool) {
    if !while_unwinding { drop(strm); return }
    let _ = std::panic::catch_unwind(std::panic::AssertUnwindSafe(move || { let _owned_by_the_failing_task = strm; std::panic::resume_unwind(Box::new("the consumer's task failed")) }));
}

#[derive(Default)]
pub struct ConsLog {
    /// (id, valid pattern, address, stamp)
    pub yields:  Mutex<Vec<(u64, bool, usize, u64)>>,
    pub ended:   AtomicBool,
    pub gave_up: AtomicBool,
    pub parks:   AtomicU32,
    pub polls:   AtomicU32,
    pub wakes:   AtomicU32,
    /// (call stamp, return stamp) of polls that answered "nothing"
    pub empties: Mutex<Vec<(u64, u64)>>,
    pub held:    Mutex<Vec<Item>>,
    pub stream_id: AtomicU32,
    pub tid:     AtomicU32,
    /// (stamp before, stamp after) the stream was dropped by its consumer
    pub drop_span: Mutex<Option<(u64, u64)>>,
    /// the consumer's task fails once it is done with the stream: the stream is dropped while its thread unwinds from a panic (caught by the consumer itself)
    pub drop_while_unwinding: AtomicBool,
    /// driven consumer with replaced wakers: only the waker of the most recent poll wakes it, and now and then it polls again (with a new waker) although nobody woke it
    pub only_latest_waker: AtomicBool,
    pub stale_wakes: AtomicU32,
    pub spurious_polls: AtomicU32,
    /// FREE lane: (after the k-th yield, milliseconds) -- the polling consumer stays away that long (a consumer that is busy elsewhere:
    /// the buffer fills up and the producers meet back-pressure for a while)
    pub stalls:  Mutex<Vec<(u32, u32)>>,
}
impl ConsLog {
    pub fn ids(&self) -> Vec<u64> { self.yields.lock().unwrap().iter().map(|y| y.0).collect() }
}

#[derive(Clone, Copy, PartialEq, Eq, Debug)]
pub enum Hold {
    /// release each item right away
    Release,
    /// keep every handle until the end of the run (log.held)
    Keep,
}

/// A minimal executor: poll; on an item record it and poll again; on `Pending` park until the waker was invoked
/// (invocations during the poll count, as in any executor). Ends on end-of-stream or when the run is quiescent.
pub fn driven_consumer_body(mut strm: Box<dyn Strm>, fresh_wakers: bool, hold: Hold, log: Arc<ConsLog>) -> Body {
    Box::new(move || {
        log.stream_id.store(strm.id(), SeqCst);
        log.tid.store(sched::my_tid() as u32, SeqCst);
        let flag = WakeFlag::new();
        let mut stable = flag.fresh_waker();
        let mut npoll = 0u32;
        let strict = fresh_wakers && log.only_latest_waker.load(SeqCst);
        if strict { flag.only_the_latest_waker_counts() }
        let mut spurious = false;
        loop {
            // "waker replaced between polls": a new waker object on a few of the polls (every poll would self-wake forever)
            npoll += 1;
            if fresh_wakers && (npoll == 2 || npoll == 3 || npoll == 5 || npoll == 8 || spurious) { stable = flag.fresh_waker() }
            spurious = false;
            let w = stable.clone();
            let t0 = stamp();
            log.polls.fetch_add(1, SeqCst);
            match strm.poll(&w) {
                Poll::Ready(Some(item)) => {
                    log.yields.lock().unwrap().push((item.id, item.valid, item.addr, stamp()));
                    match hold { Hold::Release => drop(item), Hold::Keep => log.held.lock().unwrap().push(item) }
                    sched::op_done();
                }
                Poll::Ready(None) => { log.ended.store(true, SeqCst); break }
                Poll::Pending => {
                    log.empties.lock().unwrap().push((t0, stamp()));
                    // (strict mode) a poll nobody asked for, with a new waker: the stream moved to another task, say -- from then on only that waker counts
                    if strict && npoll % 3 == 1 && !flag.is_set() { spurious = true; log.spurious_polls.fetch_add(1, SeqCst); sched::point(); continue }
                    log.parks.fetch_add(1, SeqCst);
                    if !sched::park(&flag) { log.gave_up.store(true, SeqCst); break }
                }
            }
        }
        log.wakes.store(flag.wakes(), SeqCst);
        log.stale_wakes.store(flag.stale_wakes(), SeqCst);
        // the stream is dropped here (by the thread that polled it)
        let t0 = stamp();
        drop_stream(strm, log.drop_while_unwinding.load(SeqCst));
        *log.drop_span.lock().unwrap() = Some((t0, stamp()));
    })
}

/// A consumer that polls in a loop (never relies on wake-ups): stops when `stop()` says so after an empty poll
pub fn polling_consumer_body(mut strm: Box<dyn Strm>, hold: Hold, log: Arc<ConsLog>, stop: Arc<dyn Fn() -> bool + Send + Sync>) -> Body {
    Box::new(move || {
        log.stream_id.store(strm.id(), SeqCst);
        log.tid.store(sched::my_tid() as u32, SeqCst);
        let w = noop_waker();
        let mut empties_after_stop = 0;
        let stalls: Vec<(u32, u32)> = log.stalls.lock().unwrap().clone();
        let mut nyield = 0u32;
        loop {
            let t0 = stamp();
            log.polls.fetch_add(1, SeqCst);
            match strm.poll(&w) {
                Poll::Ready(Some(item)) => {
                    log.yields.lock().unwrap().push((item.id, item.valid, item.addr, stamp()));
                    match hold { Hold::Release => drop(item), Hold::Keep => log.held.lock().unwrap().push(item) }
                    empties_after_stop = 0;
                    sched::op_done();
                    nyield += 1;
                    for (k, ms) in &stalls { if *k == nyield { std::thread::sleep(std::time::Duration::from_millis(*ms as u64)) } }
                }
                Poll::Ready(None) => { log.ended.store(true, SeqCst); break }
                Poll::Pending => {
                    log.empties.lock().unwrap().push((t0, stamp()));
                    if stop() { empties_after_stop += 1; if empties_after_stop >= 2 { break } }
                    sched::spin();
                }
            }
        }
        let t0 = stamp();
        drop_stream(strm, log.drop_while_unwinding.load(SeqCst));
        *log.drop_span.lock().unwrap() = Some((t0, stamp()));
    })
}

pub fn ids_json(v: &[u64]) -> J { J::Arr(v.iter().map(|i| J::i(*i as i64)).collect()) }

/// FREE lane only. The library reads its per-stream waker slot without the lock under which the slot is written; the very
/// first registration (None -> Some, a 16-byte non-atomic write) racing a producer's unlocked read can hand the producer a
/// half-written waker -- a crash inside the library's waker table that none of the given properties is about. So, before any
/// concurrency starts, each stream is polled once (it is empty: the poll registers a -- retained -- waker and answers Pending);
/// later registrations replace one live waker by another and are harmless. SER runs do not do this (serialized threads cannot
/// tear the write) and keep exploring the first-registration path.
pub fn preregister(strm: &mut Box<dyn Strm>) {
    let f = WakeFlag::new();
    let w = f.fresh_waker();
    preregister_with(strm, &w)
}
/// For consumers that poll with the (single, static) no-op waker: register exactly that one, so no poll ever replaces the stored
/// waker. (Replacing a waker by one with a *different vtable* while a producer reads the slot unlocked can hand the producer a
/// torn (data, vtable) pair -- memory corruption inside the library's waker table, outside what the given properties state.)
pub fn preregister_noop(strm: &mut Box<dyn Strm>) { preregister_with(strm, &noop_waker()) }
pub fn preregister_with(strm: &mut Box<dyn Strm>, w: &std::task::Waker) {
    match strm.poll(w) {
        Poll::Pending => {}
        Poll::Ready(Some(_)) => panic!("preregister: the stream was not empty"),
        Poll::Ready(None) => panic!("preregister: the stream had ended"),
    }
}

/// runs the closure when dropped (also when the thread unwinds)
pub struct OnExit<F: FnOnce()>(pub Option<F>);
impl<F: FnOnce()> Drop for OnExit<F> { fn drop(&mut self) { if let Some(f) = self.0.take() { f() } } }
