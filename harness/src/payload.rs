//! Payload types. Every payload carries a unique id plus a redundant pattern, so a read identifies the write it
//! observed and corruption is visible. All fields are plain integers: any bit pattern left in a pool slot is a
//! valid value (never UB to look at).
//!
//!   * `Tok`  -- no destructor
//!   * `DTok` -- with a destructor that reports to the global drop tracker

use std::sync::{
    atomic::{AtomicBool, AtomicU32, AtomicU64, Ordering::SeqCst},
    Mutex,
};

#[inline] pub fn chk_of(id: u64) -> u64 { !id.rotate_left(17) ^ 0x5A5A_A5A5_C3C3_3C3C }

pub trait Payload: std::fmt::Debug + Default + Send + Sync + 'static {
    const DROPPY: bool;
    fn make(id: u64) -> Self;
    fn id(&self) -> u64;
    fn valid(&self) -> bool;
}

#[derive(Debug)]
pub struct Tok { pub id: u64, pub chk: u64 }
impl Default for Tok { fn default() -> Self { crate::sched::point_in_payload_code(); Tok { id: 0, chk: chk_of(0) } } }
impl Payload for Tok {
    const DROPPY: bool = false;
    fn make(id: u64) -> Self { Tok { id, chk: chk_of(id) } }
    fn id(&self) -> u64 { self.id }
    fn valid(&self) -> bool { self.chk == chk_of(self.id) }
}

/// 24 bytes (not a power of two), no destructor
#[derive(Debug)]
pub struct Tok24 { pub id: u64, pub chk: u64, pub pad: u64 }
impl Default for Tok24 { fn default() -> Self { Tok24 { id: 0, chk: chk_of(0), pad: 0 } } }
impl Payload for Tok24 {
    const DROPPY: bool = false;
    fn make(id: u64) -> Self { Tok24 { id, chk: chk_of(id), pad: !id } }
    fn id(&self) -> u64 { self.id }
    fn valid(&self) -> bool { self.chk == chk_of(self.id) && self.pad == !self.id }
}

#[derive(Debug)]
pub struct DTok { pub id: u64, pub chk: u64 }
impl Default for DTok { fn default() -> Self { crate::sched::point_in_payload_code(); DTok { id: 0, chk: chk_of(0) } } }
impl Payload for DTok {
    const DROPPY: bool = true;
    fn make(id: u64) -> Self { tracker().created(id); DTok { id, chk: chk_of(id) } }
    fn id(&self) -> u64 { self.id }
    fn valid(&self) -> bool { self.chk == chk_of(self.id) }
}
/// destructor runs on real payloads (id != 0, intact check word), counted whether or not the tracker is enabled
pub static RAW_DROPS: AtomicU64 = AtomicU64::new(0);
impl Drop for DTok {
    fn drop(&mut self) {
        let addr = self as *const DTok as usize;
        crate::sched::point_in_payload_code();
        if self.id != 0 && self.chk == chk_of(self.id) { RAW_DROPS.fetch_add(1, SeqCst); }
        tracker().dropped(self.id, self.chk, addr);
        // poison, so a later read or second drop of the same storage is recognisable
        // (not under Miri: OgreUnique / OgreArc keep a shared reference to the payload alive across `dealloc`, so a write from inside the destructor trips
        //  Tree Borrows on the unchanged tree -- an aliasing-model matter none of the properties is about; Miri itself sees use-after-drop there)
        #[cfg(not(miri))] { self.chk = 0xDEAD_DEAD_DEAD_DEAD; }
    }
}

// ------------------------------------------------------------------------------------------ drop tracker

#[cfg(not(miri))] pub const MAX_IDS: usize = 1 << 17;
#[cfg(miri)] pub const MAX_IDS: usize = 1 << 12;   // (the interpreter initialises these tables slowly; Miri runs are tiny)

pub struct Tracker {
    created:  Vec<AtomicU32>,
    drops:    Vec<AtomicU32>,
    /// number of handles the harness currently holds for an id
    held:     Vec<AtomicU32>,
    enabled:  AtomicBool,
    pub n_created: AtomicU64,
    pub n_drops:   AtomicU64,
    pub problems:  Mutex<Vec<String>>,
}

static TRACKER: std::sync::OnceLock<Tracker> = std::sync::OnceLock::new();
pub fn tracker() -> &'static Tracker {
    TRACKER.get_or_init(|| Tracker {
        created: (0..MAX_IDS).map(|_| AtomicU32::new(0)).collect(),
        drops:   (0..MAX_IDS).map(|_| AtomicU32::new(0)).collect(),
        held:    (0..MAX_IDS).map(|_| AtomicU32::new(0)).collect(),
        enabled: AtomicBool::new(true),
        n_created: AtomicU64::new(0), n_drops: AtomicU64::new(0),
        problems: Mutex::new(Vec::new()),
    })
}

impl Tracker {
    /// forget everything (between runs; ids are run-local and small)
    pub fn reset(&self, upto: usize) {
        for i in 0..upto.min(MAX_IDS) {
            self.created[i].store(0, SeqCst);
            self.drops[i].store(0, SeqCst);
            self.held[i].store(0, SeqCst);
        }
        self.problems.lock().unwrap().clear();
        self.enabled.store(true, SeqCst);
    }
    pub fn set_enabled(&self, on: bool) { self.enabled.store(on, SeqCst) }
    fn problem(&self, s: String) {
        if std::env::var_os("RMV_BT").is_some() { eprintln!("tracker: {s}\n{}", std::backtrace::Backtrace::force_capture()) }
        let mut p = self.problems.lock().unwrap();
        if p.len() < 32 { p.push(s) }
    }
    pub fn problem_pub(&self, s: String) { self.problem(s) }
    pub fn created(&self, id: u64) {
        if id == 0 || !self.enabled.load(SeqCst) { return }
        self.n_created.fetch_add(1, SeqCst);
        if (id as usize) < MAX_IDS { self.created[id as usize].fetch_add(1, SeqCst); }
    }
    pub fn dropped(&self, id: u64, chk: u64, addr: usize) {
        if !self.enabled.load(SeqCst) { return }
        if id == 0 && chk == chk_of(0) { return }     // a default value: nobody's payload
        self.n_drops.fetch_add(1, SeqCst);
        if chk == 0xDEAD_DEAD_DEAD_DEAD {
            self.problem(format!("double-drop: storage at {addr:#x} holding id {id} was dropped again (poisoned check word)"));
            return;
        }
        if chk != chk_of(id) {
            self.problem(format!("garbage-drop: destructor ran on storage at {addr:#x} that does not hold a payload (id={id:#x}, chk={chk:#x})"));
            return;
        }
        if (id as usize) >= MAX_IDS { return }
        let before = self.drops[id as usize].fetch_add(1, SeqCst);
        if before >= self.created[id as usize].load(SeqCst) {
            self.problem(format!("double-drop: payload id {id} destroyed {} times (created {})", before + 1, self.created[id as usize].load(SeqCst)));
        }
        let held = self.held[id as usize].load(SeqCst);
        if held > 0 {
            self.problem(format!("drop-while-held: payload id {id} destroyed while the harness still holds {held} handle(s) to it"));
        }
    }
    pub fn hold(&self, id: u64) { if (id as usize) < MAX_IDS { self.held[id as usize].fetch_add(1, SeqCst); } }
    /// must be called BEFORE the handle is actually released
    pub fn unhold(&self, id: u64) { if (id as usize) < MAX_IDS { self.held[id as usize].fetch_sub(1, SeqCst); } }
    pub fn drops_of(&self, id: u64) -> u32 { self.drops[id as usize].load(SeqCst) }
    pub fn created_of(&self, id: u64) -> u32 { self.created[id as usize].load(SeqCst) }
    pub fn take_problems(&self) -> Vec<String> { std::mem::take(&mut *self.problems.lock().unwrap()) }
}
