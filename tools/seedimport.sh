#!/bin/bash
# tools/seedimport.sh <worktree> <seed id>: copies a sub-agent's deliverables (<worktree>/_seeded) to /verif/seeded/<id> and removes the worktree
set -e
wt=$1; id=$2
test -f $wt/_seeded/patch.diff
mkdir -p /verif/seeded/$id/demo
cp $wt/_seeded/patch.diff /verif/seeded/$id/patch.diff
cp $wt/_seeded/agent_notes.md /verif/seeded/$id/agent_notes.md 2>/dev/null || true
cp $wt/_seeded/demo/*.rs /verif/seeded/$id/demo/
git -C /repo worktree remove --force $wt
echo imported $id
