#!/usr/bin/env python3
"""Runs registered checks against a seeded change, in a scratch copy (never in /repo or /verif):

  tools/seedtest.py <patch.diff> <PROP> [<PROP> ...] [--tier quick] [--seed N] [--tests] [--scratch NAME]

  * copies /repo (working tree, without target/.git) to /root/scratch-seed/repo and applies the patch there (patch -p1);
  * with --tests: runs the repository's test-suite there (guard off) and prints the pass/fail counts;
  * copies /verif (without build output) to /root/scratch-seed/verif, points the harness at the scratch repo, and runs
    `./check <PROP> --tier <tier>` there for every property given; prints the verdict lines.
`tools/seedtest.py clean` removes the scratch.
"""
import os, subprocess, sys, shutil, re
SCR = "/root/scratch-seed"
def sh(cmd, cwd=None, env=None):
    return subprocess.run(cmd, shell=True, text=True, stdout=subprocess.PIPE, stderr=subprocess.STDOUT, cwd=cwd, env=env)
def main():
    global SCR
    a = sys.argv[1:]
    if a and a[0] == "clean":
        shutil.rmtree(SCR, ignore_errors=True); return
    patch = os.path.abspath(a[0]); props = []; tier = "quick"; seed = "1"; tests = False
    i = 1
    while i < len(a):
        if a[i] == "--tier": tier = a[i+1]; i += 2
        elif a[i] == "--seed": seed = a[i+1]; i += 2
        elif a[i] == "--tests": tests = True; i += 1
        elif a[i] == "--scratch": SCR = "/root/scratch-seed-" + a[i+1]; i += 2
        else: props.append(a[i]); i += 1
    os.makedirs(SCR, exist_ok=True)
    sh(f"rsync -a --delete --exclude target --exclude .git /repo/ {SCR}/repo/")
    r = sh(f"patch -p1 --no-backup-if-mismatch < {patch}", cwd=f"{SCR}/repo")
    if r.returncode != 0: print("PATCH DOES NOT APPLY:\n" + r.stdout[-2000:]); return 2
    print("patch applied:", " ".join(re.findall(r"patching file (\S+)", r.stdout)))
    env = dict(os.environ, CARGO_NET_OFFLINE="true")
    if tests:
        r = sh("cargo test --workspace --no-fail-fast --offline 2>&1 | grep -E '^test result|FAILED|^error' ", cwd=f"{SCR}/repo", env=env)
        print("test-suite with the change (guard off):\n" + r.stdout)
    sh(f"rsync -a --delete --exclude 'target*' --exclude out --exclude replays --exclude .git --exclude evidence /verif/ {SCR}/verif/")
    os.makedirs(f"{SCR}/verif/evidence", exist_ok=True)
    t = open(f"{SCR}/verif/harness/Cargo.toml").read().replace('path = "/repo"', f'path = "{SCR}/repo"')
    open(f"{SCR}/verif/harness/Cargo.toml", "w").write(t)
    if not os.path.exists(f"{SCR}/verif/harness/Cargo.lock"): shutil.copy("/repo/Cargo.lock", f"{SCR}/verif/harness/Cargo.lock")
    for p in props:
        r = sh(f"./check {p} --tier {tier} --seed {seed}", cwd=f"{SCR}/verif", env=env)
        lines = [l for l in r.stdout.splitlines() if l.startswith("VIOLATION") or l.startswith("  what:") or l.startswith("check: " + p) or "BUILD FAILED" in l or "shard failure" in l]
        print(f"== {p}: exit {r.returncode}")
        for l in lines[:8]: print("   " + l[:400])
    return 0
if __name__ == "__main__":
    sys.exit(main())
