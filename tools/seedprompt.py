#!/usr/bin/env python3
"""tools/seedprompt.py <wave> <prop id>... : creates a scratch worktree /tmp/<wave>-<id> of /repo (HEAD) per property and prints the prompt handed to a fresh
sub-agent (only the text of the property, nothing of /verif) to /root/seedprompts/<wave>-<id>.prompt"""
import json, os, subprocess, sys
props = {json.loads(l)['id']: json.loads(l) for l in open('/verif/properties.jsonl')}
T = '''You are working on the Rust crate `reactive-mutiny` (async reactive event library: Uni/Multi stream executors over custom lock-free queues, pool allocators, OgreArc refcounting, an mmap log channel). Your own scratch git worktree of it is at {wt} (detached HEAD). Work ONLY inside that directory (you may create files there); never touch /repo or /verif. There is no network: always use `CARGO_NET_OFFLINE=true cargo ... --offline`. Use `CARGO_TARGET_DIR={wt}/target`.

This is a mutation-testing exercise for a verification framework you know nothing about. Here is one semantic property that the library is supposed to satisfy:

  {pid} -- {title}
  {statement}
  (It is meant to hold for: {quant})

YOUR TASK: produce a change to the library's source (files under src/, not tests) that BREAKS this property, such that
 1. the crate still compiles, both with and without `--features verif` (the feature `verif` only adds instrumentation hooks: lines starting with `#[cfg(feature = "verif")]` and the file src/verif.rs -- do NOT delete, move or edit those lines, and do not touch src/verif.rs; add your change around them);
 2. the repository's existing test-suite still passes exactly as before: `flock /tmp/rm-suite.lock timeout 900 env CARGO_NET_OFFLINE=true cargo test --workspace --no-fail-fast --offline` (always with that time limit: a hung run blocks everybody else) must report 150 passed in total, with exactly the two pre-existing failures (`ogre_std::ogre_queues::full_sync::non_blocking_queue::tests::peek_test` and the doctest `src/lib.rs - (line 33)`). The tests use fixed /tmp/*.mmap files, hence the flock: never run two suites at once. A few tests are timing-sensitive under load (e.g. `undegradable_latencies`): re-run once before concluding that your change broke them;
 3. the change is REALISTIC: it should look like something a maintainer could plausibly commit (an optimisation, a refactoring, a "fix" for something else, a reordering, a relaxed condition, an off-by-one in a rarely taken branch ...), small (a few lines, one or two sites), with an innocent-looking comment if any;
 4. it needs SOMETHING SPECIFIC TO MANIFEST -- a particular thread interleaving, a crash / fault / cancellation at a particular point, a multi-step sequence of operations, an unusual input or configuration (buffer size, number of streams, counter values, ...), or two cooperating sites that each look fine alone. A change that ordinary use would expose at once (first send fails, every event lost, ...) is NOT wanted. Be creative: prefer a mechanism that is different from the obvious ones (the obvious ones have been done already){avoid}.

Also write a DEMONSTRATION: one Rust integration test file `seeded_demo.rs` (to be dropped into tests/; public API of the crate only -- `reactive_mutiny::prelude::advanced::*` exposes the channel types and containers; it may use tokio, futures and std, which are already dependencies; bounded waits only, no unbounded loops; deterministic if at all possible -- e.g. force the interleaving through a payload type's own Drop/Clone/Default, through channels between threads, through a custom Waker, or through paused tokio time) that FAILS with your change applied and PASSES without it. Verify both yourself: `CARGO_NET_OFFLINE=true cargo test --offline --test seeded_demo`.

DELIVERABLES, all under {wt}/_seeded/ :
  - patch.diff : `git diff -- src` of your change against HEAD (must apply with `git apply` to a clean checkout of HEAD);
  - demo/seeded_demo.rs : the demonstration;
  - agent_notes.md : the change (file, function, what and why it looks plausible), which part of the property breaks and why, exactly what is needed for it to manifest, and the commands you ran with their observed results (suite totals with the change; demo with / without the change).
When you are done, leave the worktree's src/ with your change applied (so `git diff` shows it), and make sure tests/seeded_demo.rs is NOT left in tests/ (keep it only under _seeded/demo/). Reply with a five-line summary.
'''
def main():
    wave = sys.argv[1]; os.makedirs('/root/seedprompts', exist_ok=True)
    for arg in sys.argv[2:]:
        pid, _, avoid = arg.partition(':')
        p = props[pid]; wt = f'/tmp/{wave}-{pid}'
        if not os.path.exists(wt): subprocess.run(f'git -C /repo worktree add --detach {wt} HEAD', shell=True, check=True, stdout=subprocess.DEVNULL)
        av = f'. Mechanisms already used by earlier exercises, do NOT repeat them: {avoid}' if avoid else ''
        open(f'/root/seedprompts/{wave}-{pid}.prompt', 'w').write(T.format(wt=wt, pid=pid, title=p['title'], statement=p['statement'], quant=p['quantifier']['text'], avoid=av))
        print(f'/root/seedprompts/{wave}-{pid}.prompt')
if __name__ == '__main__': main()
