#!/usr/bin/env python3
"""pretty-prints a shard result read from stdin (development aid)"""
import json, sys
t = sys.stdin.read()
i = t.find('{"property')
if i < 0: print("NO JSON; raw output:", t[-2000:]); sys.exit(1)
if i > 0: print("stderr/stdout before json:", t[:i][-1500:])
d = json.loads(t[i:])
print("evals", d['evaluations'], "distinct", d['distinct'] if isinstance(d['distinct'], int) else len(d['distinct']), "inconclusive", d['inconclusive'], "violations", len(d['violations']))
print("counters", d['counters'])
if d.get('notes'): print("notes", d['notes'][:5])
skip = sys.argv[1] if len(sys.argv) > 1 else None
n = 0
kinds = {}
for v in d['violations']:
    for s in v.get('sigs', []): kinds[s.get('anomaly')] = kinds.get(s.get('anomaly'), 0) + 1
print("anomalies", kinds)
for v in d['violations']:
    if skip and skip in json.dumps(v.get('sigs')): continue
    print("---", v['what'][:400]); print("   sigs", v.get('sigs')); print("   cfg", v.get('config'), v.get('strategy'))
    if 'history' in v: print("    " + "\n    ".join(v['history'][:60]))
    n += 1
    if n >= 3: break
