"""Hand-written calibration mutants: name -> {props, edits: [(file, old, new)]}. Each must compile; the existing test-suite is not
required to pass for these (they calibrate the monitors; the independently produced changes under /verif/seeded/ are the ones
that also pass the test-suite)."""
AM = "src/ogre_std/ogre_queues/atomic/atomic_move.rs"
FS = "src/ogre_std/ogre_queues/full_sync/full_sync_move.rs"
SM = "src/streams_manager.rs"
MUTANTS = {
    # ---- rings
    "am_release_before_read": {"props": ["C01", "C02", "C05"], "edits": [(AM,
        "                let item = unsafe { Some(ptr::read(slot_ref)) };\n                self.release_leaked_internal(slot_id);\n                item",
        "                self.release_leaked_internal(slot_id);\n                let item = unsafe { Some(ptr::read(slot_ref)) };\n                item")]},
    "am_publish_out_of_order": {"props": ["C01", "C02"], "edits": [(AM,
        "        match self.tail.compare_exchange_weak(slot_id, slot_id.overflowing_add(1).0, Release, Relaxed) {\n            Ok(_) => true,\n            Err(_reloaded_tail) => {\n                false\n            }\n        }",
        "        self.tail.fetch_add(1, Release); let _ = slot_id; true")]},
    "am_recede_plain_store": {"props": ["C01", "C02", "C16"], "edits": [(AM,
        "        match self.enqueuer_tail.compare_exchange_weak(slot_id.overflowing_add(1).0, slot_id, Release, Relaxed) {\n            Ok(_) => true,\n            Err(_reloaded_enqueuer_tail) => {\n                false\n            }\n        }",
        "        self.enqueuer_tail.store(slot_id, Release); true")]},
    "am_full_test_le": {"props": ["C01", "C02"], "edits": [(AM, "if len_before < BUFFER_SIZE as u32 {", "if len_before <= BUFFER_SIZE as u32 {")]},
    "am_empty_test_ge": {"props": ["C01", "C02"], "edits": [(AM, "            if len_before > 0 {\n                let slot_value", "            if len_before >= 0 {\n                let slot_value")]},
    "fs_consume_no_lock": {"props": ["C01", "C02"], "edits": [(FS,
        "            ogre_sync::lock(&self.concurrency_guard);\n            #[cfg(feature = \"verif\")] crate::verif::point(crate::verif::FS_CONSUME_LOCKED);",
        "            #[cfg(feature = \"verif\")] crate::verif::point(crate::verif::FS_CONSUME_LOCKED);"),
        (FS, "                self.release_leaked_internal();\n                ogre_sync::unlock(&self.concurrency_guard);\n                item", "                self.release_leaked_internal();\n                item"),
        (FS, "                ogre_sync::unlock(&self.concurrency_guard);\n                let maybe_no_longer_empty", "                let maybe_no_longer_empty")]},
}
