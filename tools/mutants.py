"""Hand-written calibration mutants: name -> {props, edits: [(file, old, new)]}. Each must compile; the existing test-suite is not
required to pass for these (they calibrate the monitors; the independently produced changes under /verif/seeded/ are the ones
that also pass the test-suite)."""
AM = "src/ogre_std/ogre_queues/atomic/atomic_move.rs"
FS = "src/ogre_std/ogre_queues/full_sync/full_sync_move.rs"
SM = "src/streams_manager.rs"
MUTANTS = {
    # ---- rings
    "am_release_before_read": {"props": ["C01", "C02", "C05"], "edits": [(AM,
        "                let item = unsafe { Some(ptr::read(slot_ref)) };\n                self.release_leaked_internal(slot_id);\n                item",
        "                self.release_leaked_internal(slot_id);\n                let item = unsafe { Some(ptr::read(slot_ref)) };\n                item")]},
    "am_publish_out_of_order": {"props": ["C01", "C02"], "edits": [(AM,
        "        match self.tail.compare_exchange_weak(slot_id, slot_id.overflowing_add(1).0, Release, Relaxed) {\n            Ok(_) => true,\n            Err(_reloaded_tail) => {\n                false\n            }\n        }",
        "        self.tail.fetch_add(1, Release); let _ = slot_id; true")]},
    "am_recede_plain_store": {"props": ["C01", "C02", "C16"], "edits": [(AM,
        "        match self.enqueuer_tail.compare_exchange_weak(slot_id.overflowing_add(1).0, slot_id, Release, Relaxed) {\n            Ok(_) => true,\n            Err(_reloaded_enqueuer_tail) => {\n                false\n            }\n        }",
        "        self.enqueuer_tail.store(slot_id, Release); true")]},
    "am_full_test_le": {"props": ["C01", "C02"], "edits": [(AM, "if len_before < BUFFER_SIZE as u32 {", "if len_before <= BUFFER_SIZE as u32 {")]},
    "am_empty_test_ge": {"props": ["C01", "C02"], "edits": [(AM, "            if len_before > 0 {\n                let slot_value", "            if len_before >= 0 {\n                let slot_value")]},
    "fs_consume_no_lock": {"props": ["C01", "C02"], "edits": [(FS,
        "            ogre_sync::lock(&self.concurrency_guard);\n            #[cfg(feature = \"verif\")] crate::verif::point(crate::verif::FS_CONSUME_LOCKED);",
        "            #[cfg(feature = \"verif\")] crate::verif::point(crate::verif::FS_CONSUME_LOCKED);"),
        (FS, "                self.release_leaked_internal();\n                ogre_sync::unlock(&self.concurrency_guard);\n                item", "                self.release_leaked_internal();\n                item"),
        (FS, "                ogre_sync::unlock(&self.concurrency_guard);\n                let maybe_no_longer_empty", "                let maybe_no_longer_empty")]},
    # ---- C16
    "am_recede_not_retried": {"props": ["C16", "C02"], "edits": [(AM,
        "                #[cfg(feature = \"verif\")] crate::verif::spin(crate::verif::AM_LEAK_RECEDE_FAILED);\n            }\n        }\n    }",
        "                else { return None }\n            }\n        }\n    }")]},
    "fs_full_off_by_one": {"props": ["C16", "C02"], "edits": [(FS, "            if len_before < BUFFER_SIZE as u32 {\n                break unsafe { Some( (mutable_buffer.get_unchecked_mut(tail", "            if len_before < BUFFER_SIZE as u32 - 1 {\n                break unsafe { Some( (mutable_buffer.get_unchecked_mut(tail")]},
    "zc_async_reject_leaks_slot": {"props": ["C16"], "edits": [("src/uni/channels/zero_copy/atomic.rs",
        "        if let Some((slot, _slot_id)) = self.channel.leak_slot() {\n            let slot = setter(slot).await;",
        "        let _leaked = self.channel.leak_slot();\n        if let Some((slot, _slot_id)) = self.channel.leak_slot() {\n            if let Some((l, _)) = _leaked { self.channel.unleak_slot_ref(l) }\n            let slot = setter(slot).await;")]},
    # ---- C20
    "zc_async_publishes_before_await": {"props": ["C20", "C01"], "edits": [("src/uni/channels/zero_copy/atomic.rs",
        "            let slot = setter(slot).await;\n            let Some(len_after) = self.channel.publish_leaked_ref(slot) else {",
        "            let published = self.channel.publish_leaked_ref(unsafe { &*(slot as *const ItemType) });\n            let _slot = setter(slot).await;\n            let Some(len_after) = published else {")]},
    "ogre_multi_async_lock_around_await": {"props": ["C20"], "edits": [("src/multi/channels/ogre_arc/atomic.rs",
        "        if let Some((ogre_arc_item, slot)) = OgreArc::new(&self.allocator) {\n            setter(slot).await;",
        "        if let Some((ogre_arc_item, slot)) = OgreArc::new(&self.allocator) {\n            static L: std::sync::atomic::AtomicBool = std::sync::atomic::AtomicBool::new(false);\n            crate::ogre_std::ogre_sync::lock(&L);\n            setter(slot).await;\n            crate::ogre_std::ogre_sync::unlock(&L);")]},
    # ---- C13 / C14
    "pool_dealloc_publishes_twice": {"props": ["C13", "C05"], "edits": [("src/ogre_std/ogre_alloc/ogre_array_pool_allocator.rs",
        "        self.free_list.publish_movable(slot_id);\n    }\n\n    #[inline(always)]\n    fn id_from_ref",
        "        self.free_list.publish_movable(slot_id);\n        if slot_id == 1 { self.free_list.publish_movable(slot_id); }\n    }\n\n    #[inline(always)]\n    fn id_from_ref")]},
    "pool_ref_from_id_off_by_one": {"props": ["C13"], "edits": [("src/ogre_std/ogre_alloc/ogre_array_pool_allocator.rs",
        "unsafe { mutable_pool.get_unchecked_mut(slot_id as usize % POOL_SIZE) }", "unsafe { mutable_pool.get_unchecked_mut((slot_id as usize + 1) % POOL_SIZE) }")]},
    "arc_drop_frees_at_two": {"props": ["C14", "C05"], "edits": [("src/ogre_std/ogre_alloc/ogre_arc.rs", "        if references != 1 {\n            return;\n        }", "        if references > 2 {\n            return;\n        }")]},
    "arc_drop_nonatomic_dec": {"props": ["C14", "C05"], "edits": [("src/ogre_std/ogre_alloc/ogre_arc.rs",
        "        let references = inner.references_count.fetch_sub(1, Release);",
        "        let references = inner.references_count.load(Relaxed);\n        #[cfg(feature = \"verif\")] crate::verif::point(crate::verif::ARC_DROP_AFTER_DEC);\n        inner.references_count.store(references - 1, Release);")]},
    "arc_clone_nonatomic_inc": {"props": ["C14"], "edits": [("src/ogre_std/ogre_alloc/ogre_arc.rs",
        "        inner.references_count.fetch_add(1, Relaxed);\n        Self {",
        "        let r = inner.references_count.load(Relaxed);\n        #[cfg(feature = \"verif\")] crate::verif::point(crate::verif::ARC_CLONE_BEFORE);\n        inner.references_count.store(r + 1, Relaxed);\n        Self {")]},
    "unique_into_arc_drops_self": {"props": ["C14", "C05"], "edits": [("src/ogre_std/ogre_alloc/ogre_unique.rs",
        "        let undroppable_self = std::mem::ManuallyDrop::new(self);", "        let undroppable_self = self;")]},
    # ---- C05
    "revert_fix_ogre_arc_field_order": {"props": ["C05"], "edits": [
        ("src/multi/channels/ogre_arc/atomic.rs", "    streams_manager:     StreamsManagerBase<MAX_STREAMS>,\n", "    streams_manager:     StreamsManagerBase<MAX_STREAMS>,\n    allocator_first:     OgreAllocatorType,\n"),
        ("src/multi/channels/ogre_arc/atomic.rs", "            allocator:           OgreAllocatorType::new(),", "            allocator_first:     OgreAllocatorType::new(),"),
        ("src/multi/channels/ogre_arc/atomic.rs", "    /// backing storage for events\n    allocator:           OgreAllocatorType,\n", ""),
    ], "sed": [("src/multi/channels/ogre_arc/atomic.rs", "self.allocator", "self.allocator_first")]},
    "ring_drop_also_drops_free_slots": {"props": ["C05"], "edits": [(AM,
        "        loop {\n            match self.consume_movable() {\n                None => break,\n                Some(item) => drop(item),\n            }\n        }",
        "        loop {\n            match self.consume_movable() {\n                None => break,\n                Some(item) => drop(item),\n            }\n        }\n        let b = unsafe { &mut * (self.buffer.get() as *mut Box<[SlotType; BUFFER_SIZE]>) };\n        unsafe { ptr::drop_in_place(b.get_unchecked_mut(0)) };")]},
    "zc_consume_returns_slot_early": {"props": ["C05", "C01"], "edits": [("src/uni/channels/zero_copy/atomic.rs",
        "            .map(|(slot_ref, _slot_id)| OgreUnique::<ItemType, OgreAllocatorType>::from_allocated_ref(slot_ref, &self.channel.allocator))",
        "            .map(|(slot_ref, slot_id)| { if slot_id == 1 { let u = OgreUnique::<ItemType, OgreAllocatorType>::from_allocated_ref(slot_ref, &self.channel.allocator); let a = u.into_ogre_arc(); unsafe { a.increment_references(0); } let c = unsafe { a.raw_copy() }; drop(c); std::mem::forget(a); } OgreUnique::<ItemType, OgreAllocatorType>::from_allocated_ref(slot_ref, &self.channel.allocator) })")]},
}
