#!/usr/bin/env python3
"""Calibration of the monitors against hand-written mutants (DESIGN 1.7).

  tools/calib.py <PROP> [mutant ...] [--secs T] [--shards K] [--lanes ser,free] [--flavor fast|checked] [--keep]

Works on a scratch copy of /repo and of the harness under /root/scratch-calib (never in /repo, /verif or /tmp); the scratch
is reused between invocations (so dependencies are compiled once) and removed with `tools/calib.py clean`.
"""
import json, os, subprocess, sys, shutil, time
ROOT = os.path.dirname(os.path.dirname(os.path.abspath(__file__)))
sys.path.insert(0, os.path.join(ROOT, "tools"))
from mutants import MUTANTS
SCR = "/root/scratch-calib"
ENV = dict(os.environ, CARGO_NET_OFFLINE="true")

def sh(cmd, **kw):
    return subprocess.run(cmd, shell=True, text=True, stdout=subprocess.PIPE, stderr=subprocess.STDOUT, **kw)

def prepare():
    os.makedirs(SCR, exist_ok=True)
    sh(f"rsync -a --delete --exclude target --exclude .git /repo/ {SCR}/repo/")
    sh(f"rsync -a --delete --exclude 'target*' /verif/harness/ {SCR}/harness/")
    t = open(f"{SCR}/harness/Cargo.toml").read().replace('path = "/repo"', f'path = "{SCR}/repo"')
    open(f"{SCR}/harness/Cargo.toml", "w").write(t)
    if not os.path.exists(f"{SCR}/harness/Cargo.lock"): shutil.copy("/repo/Cargo.lock", f"{SCR}/harness/Cargo.lock")

def build(flavor):
    env = ENV
    if flavor == "asan":
        env = dict(ENV, RUSTFLAGS="-Zsanitizer=address -Cforce-frame-pointers=yes", CARGO_TARGET_DIR=f"{SCR}/harness/target-asan")
        cmd = "cargo +nightly build --release --offline --target x86_64-unknown-linux-gnu"
    else:
        cmd = "cargo build --release --offline" if flavor == "fast" else "cargo build --profile checked --offline"
    r = sh(cmd, cwd=f"{SCR}/harness", env=env)
    if r.returncode != 0:
        print(r.stdout[-3000:]); return None
    if flavor == "asan":
        os.environ["ASAN_OPTIONS"] = "halt_on_error=1:abort_on_error=0:detect_leaks=0:exitcode=77:allocator_may_return_null=1"
        return f"{SCR}/harness/target-asan/x86_64-unknown-linux-gnu/release/rmv"
    return f"{SCR}/harness/target/{'release' if flavor == 'fast' else 'checked'}/rmv"

def run(exe, prop, lane, secs, shards, extra):
    procs = []
    for i in range(shards):
        out = f"{SCR}/out-{i}.json"
        if os.path.exists(out): os.remove(out)
        procs.append((out, subprocess.Popen([exe, prop, "--lane", lane, "--secs", str(secs), "--seed", "11", "--shard", str(i), "--nshards", str(shards), "--out", out] + extra,
                                            stdout=subprocess.DEVNULL, stderr=subprocess.PIPE, text=True)))
    ev = 0; viol = []; crashes = 0; first_t = None
    for out, p in procs:
        try: _, err = p.communicate(timeout=secs * 4 + 200)
        except subprocess.TimeoutExpired: p.kill(); crashes += 1; continue
        if os.path.exists(out):
            d = json.load(open(out)); ev += d["evaluations"]; viol += d["violations"]
        else:
            crashes += 1; viol.append({"what": "process died: " + (err or "")[-300:], "sigs": [{"anomaly": "process_crash"}]})
    return ev, viol, crashes

def main():
    a = sys.argv[1:]
    if a and a[0] == "clean":
        shutil.rmtree(SCR, ignore_errors=True); return
    prop = a[0]; names = []; secs = 10; shards = 8; lanes = ["ser"]; flavor = "fast"; extra = []
    i = 1
    while i < len(a):
        if a[i] == "--secs": secs = float(a[i+1]); i += 2
        elif a[i] == "--shards": shards = int(a[i+1]); i += 2
        elif a[i] == "--lanes": lanes = a[i+1].split(","); i += 2
        elif a[i] == "--flavor": flavor = a[i+1]; i += 2
        elif a[i] == "--only": extra += ["--only", a[i+1]]; i += 2
        elif a[i] == "--set": extra += ["--set", a[i+1]]; i += 2
        else: names.append(a[i]); i += 1
    todo = [(n, m) for n, m in MUTANTS.items() if (prop in m["props"]) and (not names or n in names)]
    if "none" in names: todo = [("none", {"props": [prop], "edits": []})] + todo
    for name, m in todo:
        prepare()
        ok = True
        for (f, old, new) in m["edits"]:
            p = f"{SCR}/repo/{f}"; s = open(p).read()
            if s.count(old) < 1: print(f"{name}: pattern not found in {f}: {old!r}"); ok = False; break
            s = s.replace(old, new, 1) if not m.get("all") else s.replace(old, new)
            open(p, "w").write(s)
        for (f, old, new) in m.get("sed", []):
            p = f"{SCR}/repo/{f}"; s = open(p).read(); open(p, "w").write(s.replace(old, new))
        if not ok: continue
        t = time.time(); exe = build(flavor)
        if not exe: print(f"{name}: DOES NOT BUILD"); continue
        bt = time.time() - t
        for lane in lanes:
            ev, viol, crashes = run(exe, prop, lane, secs, shards, extra)
            kinds = {}
            for v in viol:
                for s in v.get("sigs", [{}]): kinds[s.get("anomaly", "?")] = kinds.get(s.get("anomaly", "?"), 0) + 1
            print(f"{prop} mutant {name:40s} lane={lane} build={bt:.0f}s runs={ev} violations={len(viol)} crashes={crashes} kinds={kinds}")
            if viol: print("      e.g.:", viol[0].get("what", "")[:240].replace("\n", " "))
    sys.stdout.flush()

if __name__ == "__main__":
    main()
