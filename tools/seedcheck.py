#!/usr/bin/env python3
"""Runs the registered checks against seeded changes, in scratch copies (never in /repo or /verif), and records the outcome in
seeded/<id>/checks.json (merged per property: a later run of the same property and tier replaces the earlier one).

  tools/seedcheck.py [--tier quick|thorough] [--seed N] [--builders B] [--props C01,C05] [id ...]
        default ids: every seeded change; default property: the one the change breaks (seeded/<id>/meta.json or the id's prefix)

Pipeline: B builder threads prepare scratch slots /root/scratch-seedcheck/<slot>/{repo,verif} (copy, apply the patch, build the flavours the
property's plan needs) while one runner executes `./check <PROP> --tier <tier>` in the prepared slots, one at a time (a check uses every core).
"""
import json, os, queue, re, shutil, subprocess, sys, threading, time
ROOT = os.path.dirname(os.path.dirname(os.path.abspath(__file__)))
SCR = "/root/scratch-seedcheck"
ENV = dict(os.environ, CARGO_NET_OFFLINE="true", CARGO_TERM_COLOR="never")
sys.path.insert(0, ROOT)
from plans import PLANS  # noqa: E402

def sh(cmd, cwd=None, timeout=None):
    return subprocess.run(cmd, shell=True, text=True, stdout=subprocess.PIPE, stderr=subprocess.STDOUT, cwd=cwd, env=ENV, timeout=timeout)

def props_of(sid, override):
    if override: return override
    m = re.match(r"(?:revert-)?(C\d\d)", sid)
    return [m.group(1)]

def prepare(slot, sid, props, tier):
    base = f"{SCR}/{slot}"; os.makedirs(base, exist_ok=True)
    sh(f"rsync -a --delete --exclude target --exclude .git /repo/ {base}/repo/")
    r = sh(f"patch -p1 --no-backup-if-mismatch < {ROOT}/seeded/{sid}/patch.diff", cwd=f"{base}/repo")
    if r.returncode != 0: return "patch does not apply: " + r.stdout[-500:]
    first = not os.path.exists(f"{base}/verif/harness/target")
    sh(f"rsync -a --delete --exclude 'target*' --exclude out --exclude replays --exclude .git --exclude evidence --exclude seeded /verif/ {base}/verif/")
    if first:   # start from /verif's build output so that the dependencies are not compiled again
        sh(f"rsync -a /verif/harness/target /verif/harness/target-asan /verif/harness/target-miri {base}/verif/harness/ 2>/dev/null")
    os.makedirs(f"{base}/verif/evidence", exist_ok=True)
    shutil.rmtree(f"{base}/verif/replays", ignore_errors=True); shutil.rmtree(f"{base}/verif/out", ignore_errors=True)
    t = open(f"{base}/verif/harness/Cargo.toml").read().replace('path = "/repo"', f'path = "{base}/repo"')
    open(f"{base}/verif/harness/Cargo.toml", "w").write(t)
    shutil.copy("/repo/Cargo.lock", f"{base}/verif/harness/Cargo.lock")
    flavors = sorted({l["flavor"] for p in props for l in PLANS[p][tier]})
    r = sh("./check build " + " ".join(flavors), cwd=f"{base}/verif", timeout=3600)
    if r.returncode != 0: return "build failed: " + r.stdout[-1500:]
    return None

def run_checks(slot, sid, props, tier, seed):
    base = f"{SCR}/{slot}"; out = {}
    for p in props:
        t = time.time()
        r = sh(f"./check {p} --tier {tier} --seed {seed}", cwd=f"{base}/verif", timeout=7200)
        lines = r.stdout.splitlines()
        viol = []
        for i, l in enumerate(lines):
            if l.startswith("VIOLATION") and len(viol) < 4:
                viol.append((lines[i + 1].strip()[5:].strip() if i + 1 < len(lines) and lines[i + 1].strip().startswith("what:") else "")[:400])
        summ = next((l for l in lines if l.startswith(f"check: {p} [")), "")
        out[p] = {"cmd": f"./check {p} --tier {tier} --seed {seed}   (scratch copy of /repo with the change applied)", "tier": tier, "seed": seed, "exit": r.returncode,
                  "violation_lines": sum(1 for l in lines if l.startswith("VIOLATION")), "first_violations": viol, "summary": summ[:400], "wall_s": round(time.time() - t, 1),
                  "at": time.strftime("%Y-%m-%d %H:%M:%S"), "verif_head": VERIF_HEAD}
        if r.returncode not in (0, 1): out[p]["tail"] = lines[-6:]
    return out

def record(sid, res):
    f = os.path.join(ROOT, "seeded", sid, "checks.json")
    cur = json.load(open(f)) if os.path.exists(f) else {}
    for p, v in res.items(): cur[f"{p}:{v['tier']}"] = v
    json.dump(cur, open(f, "w"), indent=1, sort_keys=True)

def main():
    global VERIF_HEAD
    a = sys.argv[1:]; tier = "quick"; seed = 1; builders = 3; override = None; ids = []
    i = 0
    while i < len(a):
        if a[i] == "--tier": tier = a[i + 1]; i += 2
        elif a[i] == "--seed": seed = int(a[i + 1]); i += 2
        elif a[i] == "--builders": builders = int(a[i + 1]); i += 2
        elif a[i] == "--props": override = a[i + 1].split(","); i += 2
        elif a[i] == "clean": shutil.rmtree(SCR, ignore_errors=True); return
        else: ids.append(a[i]); i += 1
    VERIF_HEAD = sh("git -C /verif rev-parse --short HEAD").stdout.strip()
    if not ids: ids = [d for d in sorted(os.listdir(os.path.join(ROOT, "seeded"))) if os.path.exists(os.path.join(ROOT, "seeded", d, "patch.diff"))]
    todo = queue.Queue(); ready = queue.Queue(); free = queue.Queue()
    for s in ids: todo.put(s)
    nslots = builders + 1
    for s in range(nslots): free.put(s)
    def builder():
        while True:
            try: sid = todo.get_nowait()
            except queue.Empty: return
            slot = free.get()
            props = props_of(sid, override)
            try: err = prepare(slot, sid, props, tier)
            except Exception as e: err = repr(e)
            ready.put((sid, slot, props, err))
    ths = [threading.Thread(target=builder) for _ in range(builders)]
    for t in ths: t.start()
    done = 0
    while done < len(ids):
        sid, slot, props, err = ready.get()
        if err:
            print(f"{sid}: NOT RUN: {err}", flush=True)
        else:
            res = run_checks(slot, sid, props, tier, seed)
            record(sid, res)
            for p, v in res.items():
                print(f"{sid} vs {p} [{tier}]: exit {v['exit']} violations={v['violation_lines']} {v['wall_s']}s :: {(v['first_violations'] or [''])[0][:200]}", flush=True)
        free.put(slot); done += 1
    for t in ths: t.join()
    shutil.rmtree(SCR, ignore_errors=True)

if __name__ == "__main__":
    main()
