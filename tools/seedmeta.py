#!/usr/bin/env python3
"""Writes /verif/seeded/<id>/meta.json from the confirmation logs (repository test-suite with the change, demonstration with /
without the change) and from the logs of the registered checks run against the change (tools/seedtest.py).

  tools/seedmeta.py <dir with confirm-*.log, resuite.log, batch*.log>
"""
import json, os, re, sys, glob
ROOT = os.path.dirname(os.path.dirname(os.path.abspath(__file__)))
LOGS = sys.argv[1] if len(sys.argv) > 1 else "/root/seedlogs"

# (property broken, what the change is, what it needs in order to manifest) -- condensed from each author's notes (agent_notes.md)
INFO = {
 "C01-a": ("C01", "AtomicMove::leak_slot_internal tests fullness against the published tail instead of the reserved sequence", "two or more producers between reservation and publication (or open reserve_slot()s) while published + in-flight slots reach BUFFER_SIZE; uni movable atomic only"),
 "C01-b": ("C01", "AtomicMove::release_leaked_internal advances head with a plain CAS-increment loop (slots released out of order)", ">= 2 streams polled from different threads, buffer full, one consumer finishing between another's read reservation and its read"),
 "C02-a": ("C02", "same change as C01-a (produced independently)", "an open reservation / a send in progress with the buffer nearly full"),
 "C02-b": ("C02", "FullSyncMove::consume_movable releases the slot and the lock before moving the payload out", "buffer full at the receive and a producer writing the freed slot between the consumer's unlock and its read"),
 "C03-a": ("C03", "FullSyncMove::consume_leaking_internal samples head before taking the lock", ">= 2 producers on multi ogre_arc full_sync (pool free list): two sends get the same slot"),
 "C03-b": ("C03", "mmap subscriber compares against publisher_tail (reserved) instead of consumer_tail (published)", "a listener polled while a send / send_with setter is in flight on the log channel"),
 "C04-a": ("C04", "wake_stream gives up when the wakers lock is busy (try_lock)", "two producers: the second publishes while the first is inside wake_by_ref, after the consumer has already consumed the first event and parked"),
 "C04-b": ("C04", "multi ogre_arc atomic send_derived wakes by list position instead of stream id", "listeners #0,#1 created, #0 dropped, #1 parked, then send (MAX_STREAMS >= 2); sequence, no race"),
 "C05-a": ("C05", "pool dealloc_id publishes the slot to the free list before running the destructor", "payload with destructor + exhausted pool + a producer allocating while the releasing thread is still inside the destructor"),
 "C05-b": ("C05", "From<OgreUnique> for OgreArc builds the arc without ManuallyDrop (slot released by the by-value unique)", "only the trait form of the conversion (OgreArc::from(unique) / unique.into()), which nothing in the repository uses"),
 "C06-a": ("C06", "one for_each_concurrent site of spawn_futures_executor takes the pinned stream by value again", "futures (non-fallible) executor with a timeout, concurrency_limit > 1, slow items, fewer than limit futures in flight at end-of-stream"),
 "C06-b": ("C06", "end_all_streams returns early when no stream is flagged as running", "cancel_all_streams() followed by close(), or a second / concurrent close()"),
 "C07-a": ("C07", "cancel_all_streams stops after running_streams_count() flagged streams", ">= 2 streams, one with a lower id dropped without cancel (stale keep-running flag), then cancel_all_streams"),
 "C07-b": ("C07", "register_stream_waker does not self-wake on the very first registration", "cancel lands inside a stream's first empty poll, after the keep-running check and before the waker is stored"),
 "C08-a": ("C08", "same change as C01-a (produced independently)", "reserve_slot() while pending + open reservations == BUFFER_SIZE"),
 "C08-b": ("C08", "multi ogre_arc try_send_reserved returns early when there is no listener (slot never released)", "try_send_reserved on a Multi ogre_arc channel without listeners; BUFFER_SIZE of them exhaust the pool"),
 "C09-a": ("C09", "split subscription reads consumer_tail twice (old end and new start from different loads)", "a split subscription racing a publisher whose commit lands between the two loads"),
 "C09-b": ("C09", "mmap publish commits with 'raise consumer_tail to at least tail+1' instead of in-order CAS", ">= 2 overlapping publishers completing out of order and a listener reading in the gap"),
 "C10-a": ("C10", "arc full_sync drop_resources skips the drain for a cancelled stream", "cancel a listener, send before its stream object is dropped, drop it, recycle the id"),
 "C10-b": ("C10", "sync_vacant_and_used_streams no longer sorts the vacant ids", "two coexisting listeners dropped in non-creation order (MAX_STREAMS >= 2)"),
 "C11-a": ("C11", "Uni divides the concurrency limit by MAX_STREAMS (0 = unbounded)", "Uni with MAX_STREAMS >= 2 and a limit below MAX_STREAMS, item futures that suspend"),
 "C11-b": ("C11", "futures timeout budget measured from a start instant that is only refreshed with metrics on", "timeout executor without metrics, item picked up after the executor has lived longer than the timeout, item future that suspends"),
 "C12-a": ("C12", "sequential old->new transition skipped when concurrency_limit >= 2", "log channel with old events, futures oldies executor, sequential_transition, limit >= 2, a new event while an old one is in flight"),
 "C12-b": ("C12", "spawn_fallibles_executors arms the close latch with concurrency_limit instead of MAX_STREAMS", "MAX_STREAMS != concurrency_limit on that entry point"),
 "C13-a": ("C13", "AtomicMove::consume_leaking_internal compares len_before unsigned", ">= 2 allocations racing on an exhausted pool (atomic free list)"),
 "C13-b": ("C13", "same as C03-a: FullSyncMove consume samples head before the lock", "two allocations contending for the lock with >= 2 free slots (full-sync free list)"),
 "C14-a": ("C14", "OgreArc::clone stores 2 when it read a count of 1 ('sole owner fast path')", "two threads cloning the same sole handle through a shared reference at once"),
 "C14-b": ("C14", "same idea as C05-b: From<OgreUnique> for OgreArc drops the unique", "only OgreArc::from(unique) / unique.into()"),
 "C15-a": ("C15", "FullSyncMove::available_elements_count uses saturating_sub", "tail has wrapped past 2^32 while head has not"),
 "C15-b": ("C15", "AtomicMove::drop walks head..tail as a numeric range (skipped when !needs_drop)", "payload with destructor, leftovers straddling the 2^32 wrap at teardown"),
 "C16-a": ("C16", "?", "?"),
 "C16-b": ("C16", "?", "?"),
 "C17-a": ("C17", "arc atomic drop_resources drains only as many events as were buffered when it started", "a listener with a backlog dropped while a producer completes a send during the drain; the id is then recycled"),
 "C17-b": ("C17", "ogre_arc atomic send_derived walks the live list to the sentinel while references were taken from the earlier count", "a listener creation completing inside a producer's fan-out"),
 "C18-a": ("C18", "full-sync NonBlockingQueue::dequeue reads the slot after consume() has released it", "queue (nearly) full and an enqueue overwriting the released slot before the late read"),
 "C18-b": ("C18", "atomic-flag stack push clears the flag on the 'full' path even when it did not acquire it", "full stack under contention: two pushers + another operation"),
 "C19-a": ("C19", "inc() fast path: probe, then fetch_add(1) when the measurement equals the average", "one thread recording the current average while another records a different value in between"),
 "C19-b": ("C19", "atomic_compute splits the joined value once, outside the retry loop", "a real compare-exchange failure (>= 2 writers)"),
 "C20-a": ("C20", "zero-copy atomic send_with_async reserves its ring position before awaiting the setter", "a setter that really suspends while another publication happens"),
 "C20-b": ("C20", "zero-copy full_sync send_with_async decides before the await whether to wake", ">= MAX_STREAMS events pending when the async send starts, consumer drains and parks during the suspension"),
}
REVERTS = {"revert-C04-D2": ("C04", "b29bf14"), "revert-C05-D1": ("C05", "566407a"), "revert-C07-D11": ("C07", "c87ad6e"), "revert-C07-D12": ("C07", "6136059"), "revert-C08-D7": ("C08", "90eed7c"),
           "revert-C10-D6": ("C10", "1e5b2b4"), "revert-C06-D4": ("C06", "9972bbc"), "revert-C06-D13": ("C06", "a3f4c53")}

def confirmations():
    out = {}
    for f in sorted(glob.glob(os.path.join(LOGS, "confirm-C*.log"))) + [os.path.join(LOGS, "resuite.log")]:
        if not os.path.exists(f): continue
        for l in open(f):
            m = re.match(r"\[/tmp/wt-(C\d+) ([ab])\] (.*)", l.strip())
            if not m: continue
            sid = f"{m.group(1)}-{m.group(2)}"; rest = m.group(3); c = out.setdefault(sid, {})
            if rest.startswith("suite with change") or rest.startswith("attempt"):
                r = re.search(r"(\d+) passed, (\d+) failed", rest)
                if r: c.setdefault("suite_attempts", []).append(f"{r.group(1)} passed, {r.group(2)} failed; failed: " + rest.split("failed:")[-1].strip())
            elif rest.startswith("demo WITH change"): c["demo_with_change"] = rest.split(":", 1)[1].strip()
            elif rest.startswith("demo WITHOUT change"): c["demo_without_change"] = rest.split(":", 1)[1].strip()
            elif "builds with" in rest: c["builds_with_feature_verif"] = True
    return out

def check_runs():
    """{seed: {prop: {exit, first_violations[]}}} from the batch logs; later runs of the same (seed, prop) replace earlier ones"""
    out = {}
    for f in sorted(glob.glob(os.path.join(LOGS, "batch*.log")), key=os.path.getmtime):
        seed = None; prop = None
        for l in open(f):
            m = re.match(r"##### (\S+) vs", l)
            if m: seed = m.group(1); continue
            m = re.match(r"== (C\d+): exit (\d+)", l)
            if m and seed: prop = m.group(1); out.setdefault(seed, {})[prop] = {"exit": int(m.group(2)), "first_violations": [], "log": os.path.basename(f)}; continue
            if seed and prop and l.strip().startswith("what:") and len(out[seed][prop]["first_violations"]) < 2: out[seed][prop]["first_violations"].append(l.strip()[5:].strip()[:300])
            if seed and prop and l.strip().startswith("check: " + prop): out[seed][prop]["summary"] = l.strip()[:300]
    return out

def main():
    conf = confirmations(); runs = check_runs(); table = []
    for d in sorted(os.listdir(os.path.join(ROOT, "seeded"))):
        p = os.path.join(ROOT, "seeded", d)
        if not os.path.isdir(p): continue
        if d in REVERTS:
            prop, commit = REVERTS[d]
            meta = {"id": d, "breaks_property": prop, "source": f"reverse patch of the fix: commit {commit} (git diff {commit} {commit}^ -- src): the defect the machinery found must be reported again if it returns",
                    "needs": "see known_findings.json, entry " + d[len("revert-"):]}
        else:
            prop, what, needs = INFO.get(d, ("?", "?", "?"))
            meta = {"id": d, "breaks_property": prop, "source": "independent sub-agent given only the property text and a scratch worktree (its own notes: agent_notes.md)", "change": what, "needs": needs,
                    "confirmed_in_scratch_worktree": conf.get(d, {}), "demonstration": sorted(os.listdir(os.path.join(p, "demo"))) if os.path.isdir(os.path.join(p, "demo")) else []}
        r = runs.get(d, {})
        meta["registered_checks_run_against_it"] = {k: {"cmd": f"tools/seedtest.py seeded/{d}/patch.diff {k} (= ./check {k} --tier quick on a scratch copy with the change applied)", **v} for k, v in r.items()}
        meta["caught_by"] = sorted(k for k, v in r.items() if v["exit"] == 1)
        meta["missed_by"] = sorted(k for k, v in r.items() if v["exit"] != 1)
        json.dump(meta, open(os.path.join(p, "meta.json"), "w"), indent=1)
        table.append((d, prop, ",".join(meta["caught_by"]) or "-", ",".join(meta["missed_by"]) or "-"))
    for t in table: print("%-16s breaks %-4s caught by %-12s not caught by %s" % t)

if __name__ == "__main__":
    main()
