#!/usr/bin/env python3
"""Writes /verif/seeded/<id>/meta.json from seeded/<id>/confirm.json (tools/seedconfirm.py: repository test-suite with the change,
demonstration with / without the change, all in scratch copies) and seeded/<id>/checks.json (tools/seedcheck.py: the registered checks
run against a scratch copy with the change applied), and prints the catch matrix.

  tools/seedmeta.py [--md]      (--md: the matrix as a markdown table for DESIGN.md)
"""
import json, os, re, sys, glob
ROOT = os.path.dirname(os.path.dirname(os.path.abspath(__file__)))

# (property broken, what the change is, what it needs in order to manifest) -- condensed from each author's notes (agent_notes.md)
INFO = {
 "C01-a": ("C01", "AtomicMove::leak_slot_internal tests fullness against the published tail instead of the reserved sequence", "two or more producers between reservation and publication (or open reserve_slot()s) while published + in-flight slots reach BUFFER_SIZE; uni movable atomic only"),
 "C01-b": ("C01", "AtomicMove::release_leaked_internal advances head with a plain CAS-increment loop (slots released out of order)", ">= 2 streams polled from different threads, buffer full, one consumer finishing between another's read reservation and its read"),
 "C02-a": ("C02", "same change as C01-a (produced independently)", "an open reservation / a send in progress with the buffer nearly full"),
 "C02-b": ("C02", "FullSyncMove::consume_movable releases the slot and the lock before moving the payload out", "buffer full at the receive and a producer writing the freed slot between the consumer's unlock and its read"),
 "C03-a": ("C03", "FullSyncMove::consume_leaking_internal samples head before taking the lock", ">= 2 producers on multi ogre_arc full_sync (pool free list): two sends get the same slot"),
 "C03-b": ("C03", "mmap subscriber compares against publisher_tail (reserved) instead of consumer_tail (published)", "a listener polled while a send / send_with setter is in flight on the log channel"),
 "C04-a": ("C04", "wake_stream gives up when the wakers lock is busy (try_lock)", "two producers: the second publishes while the first is inside wake_by_ref, after the consumer has already consumed the first event and parked"),
 "C04-b": ("C04", "multi ogre_arc atomic send_derived wakes by list position instead of stream id", "listeners #0,#1 created, #0 dropped, #1 parked, then send (MAX_STREAMS >= 2); sequence, no race"),
 "C05-a": ("C05", "pool dealloc_id publishes the slot to the free list before running the destructor", "payload with destructor + exhausted pool + a producer allocating while the releasing thread is still inside the destructor"),
 "C05-b": ("C05", "From<OgreUnique> for OgreArc builds the arc without ManuallyDrop (slot released by the by-value unique)", "only the trait form of the conversion (OgreArc::from(unique) / unique.into()), which nothing in the repository uses"),
 "C06-a": ("C06", "one for_each_concurrent site of spawn_futures_executor takes the pinned stream by value again", "futures (non-fallible) executor with a timeout, concurrency_limit > 1, slow items, fewer than limit futures in flight at end-of-stream"),
 "C06-b": ("C06", "end_all_streams returns early when no stream is flagged as running", "cancel_all_streams() followed by close(), or a second / concurrent close()"),
 "C07-a": ("C07", "cancel_all_streams stops after running_streams_count() flagged streams", ">= 2 streams, one with a lower id dropped without cancel (stale keep-running flag), then cancel_all_streams"),
 "C07-b": ("C07", "register_stream_waker does not self-wake on the very first registration", "cancel lands inside a stream's first empty poll, after the keep-running check and before the waker is stored"),
 "C08-a": ("C08", "same change as C01-a (produced independently)", "reserve_slot() while pending + open reservations == BUFFER_SIZE"),
 "C08-b": ("C08", "multi ogre_arc try_send_reserved returns early when there is no listener (slot never released)", "try_send_reserved on a Multi ogre_arc channel without listeners; BUFFER_SIZE of them exhaust the pool"),
 "C09-a": ("C09", "split subscription reads consumer_tail twice (old end and new start from different loads)", "a split subscription racing a publisher whose commit lands between the two loads"),
 "C09-b": ("C09", "mmap publish commits with 'raise consumer_tail to at least tail+1' instead of in-order CAS", ">= 2 overlapping publishers completing out of order and a listener reading in the gap"),
 "C10-a": ("C10", "arc full_sync drop_resources skips the drain for a cancelled stream", "cancel a listener, send before its stream object is dropped, drop it, recycle the id"),
 "C10-b": ("C10", "sync_vacant_and_used_streams no longer sorts the vacant ids", "two coexisting listeners dropped in non-creation order (MAX_STREAMS >= 2)"),
 "C11-a": ("C11", "Uni divides the concurrency limit by MAX_STREAMS (0 = unbounded)", "Uni with MAX_STREAMS >= 2 and a limit below MAX_STREAMS, item futures that suspend"),
 "C11-b": ("C11", "futures timeout budget measured from a start instant that is only refreshed with metrics on", "timeout executor without metrics, item picked up after the executor has lived longer than the timeout, item future that suspends"),
 "C12-a": ("C12", "sequential old->new transition skipped when concurrency_limit >= 2", "log channel with old events, futures oldies executor, sequential_transition, limit >= 2, a new event while an old one is in flight"),
 "C12-b": ("C12", "spawn_fallibles_executors arms the close latch with concurrency_limit instead of MAX_STREAMS", "MAX_STREAMS != concurrency_limit on that entry point"),
 "C13-a": ("C13", "AtomicMove::consume_leaking_internal compares len_before unsigned", ">= 2 allocations racing on an exhausted pool (atomic free list)"),
 "C13-b": ("C13", "same as C03-a: FullSyncMove consume samples head before the lock", "two allocations contending for the lock with >= 2 free slots (full-sync free list)"),
 "C14-a": ("C14", "OgreArc::clone stores 2 when it read a count of 1 ('sole owner fast path')", "two threads cloning the same sole handle through a shared reference at once"),
 "C14-b": ("C14", "same idea as C05-b: From<OgreUnique> for OgreArc drops the unique", "only OgreArc::from(unique) / unique.into()"),
 "C15-a": ("C15", "FullSyncMove::available_elements_count uses saturating_sub", "tail has wrapped past 2^32 while head has not"),
 "C15-b": ("C15", "AtomicMove::drop walks head..tail as a numeric range (skipped when !needs_drop)", "payload with destructor, leftovers straddling the 2^32 wrap at teardown"),
 "C16-a": ("C16", "AtomicMove::leak_slot_internal loads head once, outside the full/recede retry loop", ">= 2 producers colliding at the full boundary while the consumer frees >= 2 slots: the receding producer spins forever on a stale head and blocks every later publication"),
 "C16-b": ("C16", "FullSyncMove::leak_slot_internal gets an unlocked 'is it full?' fast path (torn tail/head read)", "a producer sampling tail and head around a concurrent consume+publish: phantom 'full' rejection although there is room"),
 "C17-a": ("C17", "arc atomic drop_resources drains only as many events as were buffered when it started", "a listener with a backlog dropped while a producer completes a send during the drain; the id is then recycled"),
 "C17-b": ("C17", "ogre_arc atomic send_derived walks the live list to the sentinel while references were taken from the earlier count", "a listener creation completing inside a producer's fan-out"),
 "C18-a": ("C18", "full-sync NonBlockingQueue::dequeue reads the slot after consume() has released it", "queue (nearly) full and an enqueue overwriting the released slot before the late read"),
 "C18-b": ("C18", "atomic-flag stack push clears the flag on the 'full' path even when it did not acquire it", "full stack under contention: two pushers + another operation"),
 "C19-a": ("C19", "inc() fast path: probe, then fetch_add(1) when the measurement equals the average", "one thread recording the current average while another records a different value in between"),
 "C19-b": ("C19", "atomic_compute splits the joined value once, outside the retry loop", "a real compare-exchange failure (>= 2 writers)"),
 "C20-a": ("C20", "zero-copy atomic send_with_async reserves its ring position before awaiting the setter", "a setter that really suspends while another publication happens"),
 "C20-b": ("C20", "zero-copy full_sync send_with_async decides before the await whether to wake", ">= MAX_STREAMS events pending when the async send starts, consumer drains and parks during the suspension"),
}
REVERTS = {"revert-C04-D2": ("C04", "b29bf14"), "revert-C05-D1": ("C05", "566407a"), "revert-C07-D11": ("C07", "c87ad6e"), "revert-C07-D12": ("C07", "6136059"), "revert-C08-D7": ("C08", "90eed7c"),
           "revert-C10-D6": ("C10", "1e5b2b4"), "revert-C06-D4": ("C06", "9972bbc"), "revert-C06-D13": ("C06", "a3f4c53")}


def main():
    md = "--md" in sys.argv
    table = []
    for d in sorted(os.listdir(os.path.join(ROOT, "seeded"))):
        p = os.path.join(ROOT, "seeded", d)
        if not os.path.isdir(p) or not os.path.exists(os.path.join(p, "patch.diff")): continue
        conf = json.load(open(os.path.join(p, "confirm.json"))) if os.path.exists(os.path.join(p, "confirm.json")) else {}
        runs = json.load(open(os.path.join(p, "checks.json"))) if os.path.exists(os.path.join(p, "checks.json")) else {}
        if d in REVERTS:
            prop, commit = REVERTS[d]
            meta = {"id": d, "breaks_property": prop, "source": f"reverse patch of the fix: commit {commit} (git diff {commit} {commit}^ -- src): the defect the machinery found must be reported again if it returns",
                    "needs": "see known_findings.json, entry " + d[len("revert-"):]}
            what = "revert of fix " + commit
        else:
            prop, what, needs = INFO.get(d, (d[:3], "see agent_notes.md", "see agent_notes.md"))
            meta = {"id": d, "breaks_property": prop, "source": "independent sub-agent given only the property text and a scratch worktree (its own notes: agent_notes.md)", "change": what, "needs": needs,
                    "demonstration": sorted(os.listdir(os.path.join(p, "demo"))) if os.path.isdir(os.path.join(p, "demo")) else []}
        s = conf.get("suite_with_change", {}); s2 = conf.get("suite_with_change_retry", {})
        suite_ok = bool(s.get("same_as_baseline") or s2.get("same_as_baseline"))
        dw = {k: v["result"] for k, v in conf.get("demo_with_change", {}).items()}; dwo = {k: v["result"] for k, v in conf.get("demo_without_change", {}).items()}
        demo_ok = (not dw and d in REVERTS) or (bool(dw) and all(not r.startswith("ok") for r in dw.values()) and all(r.startswith("ok") for r in dwo.values()))
        meta["confirmed_in_scratch_copy"] = {"what_was_run": "tools/seedconfirm.py (scratch copy of /repo): cargo check with/without --features verif; cargo test --workspace --no-fail-fast --offline with the change; the demonstration as tests/<demo>.rs with and without the change",
            "patch_applies": conf.get("patch_applies"), "builds_with_feature_verif": conf.get("builds_with_feature_verif"),
            "suite_with_change": s, **({"suite_with_change_retry": s2} if s2 else {}), "suite_same_as_baseline": suite_ok,
            "demo_with_change": dw, "demo_without_change": dwo, "confirmed": bool(conf.get("patch_applies") and suite_ok and demo_ok)}
        meta["registered_checks_run_against_it"] = runs
        meta["caught_by"] = sorted(k for k, v in runs.items() if v["exit"] == 1)
        meta["missed_by"] = sorted(k for k, v in runs.items() if v["exit"] != 1)
        json.dump(meta, open(os.path.join(p, "meta.json"), "w"), indent=1)
        first = next((v["first_violations"][0] for k, v in sorted(runs.items()) if v["exit"] == 1 and v["first_violations"]), "")
        table.append((d, prop, what, "yes" if meta["confirmed_in_scratch_copy"]["confirmed"] else "NO", ", ".join(meta["caught_by"]) or "-", ", ".join(meta["missed_by"]) or "-", first))
    if md:
        print("| change | breaks | what it is | caught by | not caught by |\n|---|---|---|---|---|")
        for t in table: print(f"| {t[0]} | {t[1]} | {t[2][:150]} | {t[4]} | {t[5]} |")
    else:
        for t in table: print("%-16s breaks %-4s confirmed %-3s caught by %-28s not caught by %-20s %s" % (t[0], t[1], t[3], t[4], t[5], t[6][:110]))

if __name__ == "__main__":
    main()
