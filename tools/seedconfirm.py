#!/usr/bin/env python3
"""Confirms seeded changes in scratch copies (never in /repo or /verif) and records the outcome in seeded/<id>/confirm.json:

  tools/seedconfirm.py [--jobs J] [id ...]          (default: every directory of /verif/seeded without confirm.json)

per change:  1. demonstration WITHOUT the change (must pass)          2. the change applies and builds with and without feature `verif`
             3. the repository's test-suite with the change, guard off (must show the baseline: 150 passed, the 2 baseline failures)
             4. demonstration WITH the change (must fail)
Scratch: /root/scratch-confirm/<slot>/repo with a per-slot cargo target directory that is reused between changes; removed at the end.
"""
import json, os, re, shutil, subprocess, sys, time
from concurrent.futures import ThreadPoolExecutor
ROOT = os.path.dirname(os.path.dirname(os.path.abspath(__file__)))
SCR = "/root/scratch-confirm"
ENV = dict(os.environ, CARGO_NET_OFFLINE="true", CARGO_TERM_COLOR="never")
BASELINE_FAIL = {"ogre_std::ogre_queues::full_sync::non_blocking_queue::tests::peek_test", "src/lib.rs - (line 33)"}

def sh(cmd, cwd, timeout=1800):
    try:
        r = subprocess.run(cmd, shell=True, text=True, stdout=subprocess.PIPE, stderr=subprocess.STDOUT, cwd=cwd, env=ENV, timeout=timeout)
        return r.returncode, r.stdout
    except subprocess.TimeoutExpired as e:
        return 124, (e.stdout or b"").decode(errors="replace") if isinstance(e.stdout, bytes) else (e.stdout or "") + "\n[timeout]"

def one(slot, sid):
    d = os.path.join(ROOT, "seeded", sid); base = f"{SCR}/{slot}"; repo = f"{base}/repo"
    os.makedirs(base, exist_ok=True)
    subprocess.run(f"rsync -a --delete --exclude target --exclude .git /repo/ {repo}/", shell=True, check=True)
    res = {"id": sid, "at": time.strftime("%Y-%m-%d %H:%M:%S"), "repo_head": subprocess.run("git -C /repo rev-parse --short HEAD", shell=True, text=True, stdout=subprocess.PIPE).stdout.strip()}
    pre = f"CARGO_TARGET_DIR={base}/target "
    demos = sorted(os.listdir(os.path.join(d, "demo"))) if os.path.isdir(os.path.join(d, "demo")) else []
    names = []
    for f in demos:
        if f.endswith(".rs"):
            shutil.copy(os.path.join(d, "demo", f), f"{repo}/tests/{f}"); names.append(f[:-3])
    if names:
        res["demo_without_change"] = {n: demo_(repo, n, pre) for n in names}
        for n in names: os.remove(f"{repo}/tests/{n}.rs")
    rc, out = sh(f"patch -p1 --no-backup-if-mismatch < {d}/patch.diff", repo)
    res["patch_applies"] = rc == 0
    if rc != 0:
        res["patch_output"] = out[-1500:]; return res
    res["files_changed"] = re.findall(r"patching file (\S+)", out)
    rc, out = sh(pre + "cargo check --offline --features verif 2>&1 | tail -5", repo)
    res["builds_with_feature_verif"] = rc == 0 and "error" not in out
    passed, failed, out = suite_(repo, pre)
    res["suite_with_change"] = {"cmd": "cargo test --workspace --no-fail-fast --offline", "passed": passed, "failed": failed,
                                "same_as_baseline": passed == 150 and set(failed) <= BASELINE_FAIL}
    if not res["suite_with_change"]["same_as_baseline"]:
        # one retry: a few repository tests are timing-sensitive under load
        passed2, failed2, _ = suite_(repo, pre)
        res["suite_with_change_retry"] = {"passed": passed2, "failed": failed2, "same_as_baseline": passed2 == 150 and set(failed2) <= BASELINE_FAIL}
    if names:
        for f in demos:
            if f.endswith(".rs"): shutil.copy(os.path.join(d, "demo", f), f"{repo}/tests/{f}")
        res["demo_with_change"] = {n: demo_(repo, n, pre) for n in names}
    json.dump(res, open(os.path.join(d, "confirm.json"), "w"), indent=1)
    return res

SUITE_LOCK = __import__("threading").Lock()   # the repository's tests use fixed /tmp/<name>.mmap files: two suites at once disturb each other
def suite_(repo, pre):
    sh(pre + "cargo test --workspace --no-run --offline 2>&1", repo, timeout=2400)
    with SUITE_LOCK:
        rc, out = sh("flock /tmp/rm-suite.lock env " + pre + "cargo test --workspace --no-fail-fast --offline 2>&1", repo, timeout=3600)   # (the sub-agents take the same lock)
    passed = sum(int(m) for m in re.findall(r"test result: \w+\. (\d+) passed", out))
    failed = sorted({f.strip() for f in re.findall(r"^test (.*?) \.\.\. FAILED", out, re.M)})
    failed = [re.sub(r"^reactive_mutiny::", "", f) for f in failed]
    return passed, failed, out

def demo_(repo, name, pre):
    feat = "--features verif " if 'feature = "verif"' in open(f"{repo}/tests/{name}.rs").read() else ""   # (a demonstration may use the sequence-origin hook)
    rc, out = sh(pre + f"cargo test --offline {feat}--test {name} 2>&1", repo, timeout=1500)
    res = re.findall(r"test result: (\w+)\. (\d+) passed; (\d+) failed", out)
    tail = [l[:300] for l in out.splitlines() if "panicked at" in l or re.match(r"^test .* \.\.\. ", l) or l.startswith("error")][:10]
    if not res:
        return {"exit": rc, "result": "no result (build error, crash or timeout)", "lines": tail or [l[:300] for l in out.splitlines()[-8:]]}
    return {"exit": rc, "result": f"{res[-1][0]}: {res[-1][1]} passed, {res[-1][2]} failed", "lines": tail}

def main():
    a = sys.argv[1:]; jobs = 3; ids = []
    i = 0
    while i < len(a):
        if a[i] == "--jobs": jobs = int(a[i + 1]); i += 2
        else: ids.append(a[i]); i += 1
    if not ids:
        ids = [d for d in sorted(os.listdir(os.path.join(ROOT, "seeded"))) if os.path.isdir(os.path.join(ROOT, "seeded", d)) and not os.path.exists(os.path.join(ROOT, "seeded", d, "confirm.json"))]
    import queue
    q = queue.Queue()
    for s in ids: q.put(s)
    def worker(slot):
        while True:
            try: sid = q.get_nowait()
            except queue.Empty: return
            try:
                r = one(slot, sid)
                s = r.get("suite_with_change", {})
                print(f"{sid}: applies={r.get('patch_applies')} suite={s.get('passed')} passed / failed {s.get('failed')} baseline={s.get('same_as_baseline')} "
                      f"demo without={ {k: v['result'] for k, v in r.get('demo_without_change', {}).items()} } with={ {k: v['result'] for k, v in r.get('demo_with_change', {}).items()} }", flush=True)
            except Exception as e:
                print(f"{sid}: ERROR {e!r}", flush=True)
    with ThreadPoolExecutor(max_workers=jobs) as ex:
        list(ex.map(worker, range(jobs)))
    shutil.rmtree(SCR, ignore_errors=True)

if __name__ == "__main__":
    main()
