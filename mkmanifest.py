#!/usr/bin/env python3
"""Generates MANIFEST.json from plans.py (single source of truth for what is claimed)."""
import json, subprocess, sys, os
sys.path.insert(0, os.path.dirname(os.path.abspath(__file__)))
from plans import PLANS, META
props = [json.loads(l) for l in open("properties.jsonl")]
hook_commits = [l.split()[0] for l in subprocess.run(["git", "-C", "/repo", "log", "--format=%h %s"], capture_output=True, text=True).stdout.splitlines() if l.split(" ", 1)[1].startswith("verif:")]
checks, na = [], []
for p in props:
    pid = p["id"]
    if pid in PLANS:
        m = META[pid]
        checks.append({
            "property_id": pid,
            "quick_cmd": f"./check {pid} --tier quick",
            "thorough_cmd": f"./check {pid} --tier thorough",
            "evidence_file": f"/verif/evidence/{pid}.json",
            "replay_cmd_template": "./check replay {path}",
            "engine": m["engine"],
            "level_claimed": {"category": PLANS[pid].get("level", "exploration"), "text": m["level_text"], "design_ref": m["design_ref"]},
            "level_note": m["level_note"],
            "technique": m["technique"],
        })
    else:
        na.append({"property_id": pid, "reason": "check not built yet (work in progress; see DESIGN.md section 2 for the planned monitor)"})
man = {
    "version": 1,
    "setup_cmd": "./check build fast checked asan miri",
    "hooks": {
        "guard": "verif (cargo feature of reactive-mutiny, off by default)",
        "enable": "the harness crate /verif/harness depends on reactive-mutiny by path with features = [\"verif\"]; `./check` rebuilds it from /repo's working tree on every invocation",
        "baseline_off_cmd": "cd /repo && cargo test --workspace --no-fail-fast --offline",
        "source_commits": list(reversed(hook_commits)),
        "add_only": True,
    },
    "engines": [
        {"name": "conductor", "path": "harness/src/sched.rs", "serves_properties": sorted(p for p in PLANS if "conductor" in META[p]["engine"]), "kind_free_text": "SER lane: serialized, seeded, replayable scheduler over hook sites (random walk, PCT, targeted pause, round-robin); exact quiescence and stall verdicts"},
        {"name": "chaos", "path": "harness/src/sched.rs", "serves_properties": sorted(p for p in PLANS if "chaos" in META[p]["engine"]), "kind_free_text": "FREE lane: real threads on 16 cores with random delays injected at hook sites; stuck states decided only when provably stable"},
        {"name": "tokio", "path": "harness/src/props", "serves_properties": sorted(p for p in PLANS if "tokio" in META[p]["engine"]), "kind_free_text": "executor-level workloads on real tokio runtimes (paused-time current-thread and multi-thread)"},
        {"name": "asan", "path": "check", "serves_properties": sorted(p for p in PLANS if "asan" in META[p]["engine"]), "kind_free_text": "the same workloads in an AddressSanitizer build (nightly, -Zsanitizer=address)"},
        {"name": "miri", "path": "check", "serves_properties": sorted(p for p in PLANS if "miri" in META[p]["engine"]), "kind_free_text": "small workloads under Miri (aarch64 target, tree borrows, race detector off; see DESIGN 0.1)"},
    ],
    "checks": checks,
    "not_applicable": na,
    "notes": "Runtime monitoring only: every verdict is 'held on the executions observed'. Known findings: /verif/known_findings.json. See DESIGN.md.",
}
json.dump(man, open("MANIFEST.json", "w"), indent=1)
print(f"MANIFEST.json: {len(checks)} checks, {len(na)} not_applicable")
